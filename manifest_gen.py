#!/usr/bin/env python3
"""Regenerates MANIFEST.json from the table below (single source of truth for what is claimed)."""
import json
props=[json.loads(l)['id'] for l in open('/verif/properties.jsonl')]
hook_commit="bb694e4"
# id -> (category, technique, text, note, design_ref)
C={
"C02":("model_checking","bounded-exhaustive exploration: every non-trivial write schedule of every enumerated input is executed on the real rewriter and compared (differentially) with the single-write run",
 "For every enumerated (input, configuration) the output, the API result and the normalised handler log are identical under every 1-cut, every 2-cut (bounded length), byte-wise, empty-write schedule and rewrite_str.",
 "Differential: a defect that shifts every schedule identically is invisible here (C01/C03/C07 see those). Source locations are compared in C14, not here.","DESIGN.md §4 C02"),
"C06":("model_checking","bounded-exhaustive relational exploration: every (H, H u O) pair from the menus x every enumerated input x L0 + every 1-cut, both runs on the real rewriter",
 "No enumerated input, schedule and pair of handler sets (subject set H alone vs H plus any non-empty subset of 6 observers, registered after or before H) makes H's own event log or the sink bytes differ.",
 "Relational oracle inside the stated menus/bounds; two runs of the same build.","DESIGN.md §4 C06"),
"C09":("model_checking","bounded-exhaustive exploration of every prefix and every 1-/2-cut schedule of every enumerated input; oracles: fresh-run equality, regular language R-pending, last-token bound",
 "For every enumerated input, every prefix and schedule: bytes emitted after each write equal those of a fresh rewriter given the same prefix at once; without capturing handlers the held-back suffix is in R-pending (unfinished tag start through its name, or a contextual look-ahead keyword prefix); with observers at most the last token is held back.",
 "Oracle B (absolute bound) is claimed for the HTML namespace only: inside svg/math the tree-builder simulation legitimately needs whole tags.","DESIGN.md §4 C09"),
"C03":("model_checking","bounded-exhaustive exploration of tag soup and of a well-nested foreign-content grammar on the real tokenizer (TransformController seam and public handlers), each execution compared with html5ever's tokenizer+tree builder",
 "For every enumerated document (F<=3 / contexts x F<=2 / G<=6 nodes / 12 element names x every attribute-syntax sequence<=4), every capture set, strict on/off and every single cut: a successful strict run yields exactly html5ever's token list, output == input and equals the non-strict run; a strict failure is a ParsingAmbiguity at a text-mode-switching tag in a select/template-in-select/frameset context.",
 "html5ever 0.39 is the trusted WHATWG reference. One listed known finding (CDATA directly inside an integration point) with a structural signature.","DESIGN.md §4 C03"),
"C11":("fault_enumeration","exhaustive fault enumeration on the real rewriter: a failure injected at every handler invocation index and every memory limit value (0..M0) for every enumerated (input, schedule, handler set, flag combination); oracle = reconstruction equality",
 "For every enumerated execution and every single fault point, with the matching graceful flag the sink (markers stripped) followed by the unwritten input equals the input, bail-out markers appear exactly once in registration order between a prefix of the fault-free output and the raw remainder; without the flag nothing is flushed and bail-out handlers do not run; ambiguity errors are never recovered.",
 "Faults are injected by a failing handler and by the accounting limit (not by a failing allocator). One listed known finding (bytes of a partial character held by the text decoder are lost).","DESIGN.md §4 C11"),
"C12":("model_checking","explicit enumeration of every call history (write*, end) up to a depth over a 10-chunk alphabet x configurations x faults, with a sink-protocol monitor automaton running on every execution of the real rewriter",
 "No call history of depth <= 5 (quick) / 7 (thorough) over the chunk alphabet, under 7 configurations, with/without end(), and with a fault at every handler index or one of 4 memory limits, violates the sink protocol (encoding first, exactly one zero-length chunk as the last call of a successful end(), silence after an error, panic on reuse, prefix property without graceful flags).",
 "The monitor is transcribed from the statement; histories beyond the depth and chunks outside the alphabet are not covered.","DESIGN.md §4 C12"),
"C10":("fault_enumeration","exhaustive sweep of the memory limit (every value 0..M0+64) on the real rewriter for each growth input x chunking x preallocation, with the accounting hook as observation",
 "For every growth case (unterminated tag/attribute/comment/doctype at 11-15 sizes, nesting depths up to 33/200 with selectors, 4 chunkings, 3 preallocation modes) and every F<=2 tag-soup input, under EVERY limit value from 0 to past the first success: no panic, only MemoryLimitExceeded errors, accounted usage <= M after every successful call, retained input <= M in pass-through, success monotone in M with identical output, repeated runs identical.",
 "Uses the _verif_hooks accessor; the limit is the accounting limit (no allocator fault injection); preallocation swept only at values <= M.","DESIGN.md §4 C10"),
"C04":("model_checking","bounded-exhaustive exploration: selector programs generated from the supported grammar (as ASTs) x every document over a 20-event alphabet up to a length x {single write, cut inside every start tag}, each executed on the real selector compiler+VM and compared with an independent CSS matcher over the explicit-tag tree",
 "For every generated selector (88 simple selectors, all two-simple compounds of a 14-simple core, all 2- and 3-compound child/descendant chains over cores, :not() with compound/list/nested arguments, selector lists, all pairs of a mixed pool), run alone and in two different groupings, and every document of the alphabet up to the stated length, the element handler runs for exactly the start tags CSS semantics select.",
 "R-tree/R-match are written from the statement; documents with breakout tags inside svg or foreign roots closed by an ancestor's end tag are outside the statement's tree definition and not generated. One listed known finding (:not() with a compound argument is flattened).","DESIGN.md §4 C04"),
"C05":("model_checking","bounded-exhaustive exploration: every document over a 14-event alphabet x selector sets x registration subsets (both orders) x {single write, cut inside every token} on the real rewriter, handler log compared with a reference scope model",
 "For every enumerated document, selector set and set of registrations (element/text/comments/on_end_tag per selector, document-level text/comments/doctype/end; subsets of size<=2 in both orders, the full set in both orders, and content-removing variants) the normalised handler log equals the scope model: exactly once, only in scope, document order, registration order with selector-scoped before document-level, end handler last, end-tag handlers at the closing end tag (own or ancestor's), none for void/unclosed elements.",
 "Order among several end-tag handlers on the same end tag is compared as a multiset. Reuses R-tree/R-match.","DESIGN.md §4 C05"),
"C14":("model_checking","bounded-exhaustive exploration: generated documents whose byte ranges the generator knows x configs x encodings x all 1-/2-cut and byte-wise schedules on the real rewriter; plus structural and schedule-independence checks of every location on tag soup",
 "For every generated document (15-event alphabet, len<=4 quick/5 thorough) under observers and under handlers that rewrite earlier content, in UTF-8 and Shift_JIS, under every listed schedule, every reported range equals the generator's (tags, attribute names/values per R-attr, comments, doctype; text chunks contiguous and covering exactly their node); on tag soup all ranges are in bounds, ordered, non-overlapping and identical under every schedule.",
 "Attribute ranges come from R-attr (WHATWG attribute states transcribed from the specification); empty values only need an empty, contained, schedule-independent range.","DESIGN.md §4 C14"),
"C16":("model_checking","bounded-exhaustive exploration of start-tag syntax: every piece sequence up to a length x tag names x HTML/SVG/MathML contexts x 3 encodings x every cut inside the tag on the real rewriter, getters compared with R-attr and html5ever, then every single edit + re-read",
 "For every start tag built from <=5 (quick) / <=6 (thorough) syntax pieces, 4 tag names, 4 contexts, UTF-8/windows-1252/Shift_JIS and every cut position inside the tag: tag_name, preserve-case name, attributes() (order, names, raw values), get/has_attribute (case-insensitive, first duplicate), is_self_closing, can_have_content and namespace_uri equal the reference; after each of 9 set_attribute/remove_attribute/set_tag_name edits a re-read reflects the edit.",
 "R-attr is cross-checked against html5ever on every UTF-8/HTML tag; br (a breakout tag) is not placed inside svg/math.","DESIGN.md §4 C16"),
"C13":("model_checking","bounded-exhaustive exploration over all 36 ASCII-compatible encodings: documents built from per-encoding byte units x every 1-cut / 2-cut / byte-wise schedule on the real rewriter, handler-visible strings compared with encoding_rs whole-buffer decoding; inserted content compared with encoding_rs encoding; meta-charset histories with a sink monitor",
 "For every encoding, every pair of units (valid multi-byte characters, ASCII-trail characters, lone lead bytes, invalid trails, BOM-like prefixes) in text, attribute name/value and comment, under every enumerated schedule (and 1100-unit runs cut around the decoder's 1 KiB buffer boundary), handlers read exactly the reference decoding; inserted content is encoded in the document encoding with NCRs for unmappable characters; a meta charset switches at most once, for later tokens only, with the sink told in between; the 4 non-ASCII-compatible encodings are refused.",
 "encoding_rs (decode_without_bom_handling / encode) is the trusted reference.","DESIGN.md §4 C13"),
"C01":("model_checking","bounded-exhaustive exploration of the real rewriter: all strings over two adversarial alphabets x observer configs x all 1-/2-cut, byte-wise and empty-write schedules; oracle = byte identity",
 "No execution of the real rewriter, over every string of the fragment alphabet (len<=3 quick/<=4 thorough) and byte alphabet (len<=4/<=6), every observer handler set of a 16-entry menu, strict on/off, 4 encodings and every listed schedule, emits anything but the input (or a prefix on a strict-mode ambiguity error).",
 "Coverage statement inside the stated alphabets/bounds only; the round-trip exception is decided by encoding_rs.","DESIGN.md §4 C01"),
}
checks=[]
for pid in props:
    if pid in C:
        cat,tech,text,note,ref=C[pid]
        checks.append({"property_id":pid,"quick_cmd":f"./check {pid} --tier quick","thorough_cmd":f"./check {pid} --tier thorough",
          "evidence_file":f"/verif/evidence/{pid}.json","replay_cmd_template":f"./check {pid} --replay {{path}}","engine":"mc",
          "level_claimed":{"category":cat,"text":text,"design_ref":ref},"level_note":note,"technique":tech})
na=[{"property_id":p,"reason":"check not built yet (work in progress; see DESIGN.md §6 build order)"} for p in props if p not in C]
m={"version":1,"setup_cmd":"./check --build",
"hooks":{"guard":"cargo feature _verif_hooks (lol_html crate)","enable":"the harness crate /verif/mc depends on /repo with features [_integration_test, _verif_hooks]; cargo rebuilds /repo sources on every ./check",
 "baseline_off_cmd":"cd /repo && cargo test --workspace --no-fail-fast --offline","source_commits":[hook_commit],"add_only":True},
"engines":[{"name":"mc","path":"/verif/mc","serves_properties":sorted(C.keys()),"kind_free_text":"hand-rolled bounded-exhaustive explorer (inputs x schedules x configurations x faults x call histories) running the real implementation compiled from /repo, with reference models as oracles"}],
"checks":checks,"not_applicable":na,
"notes":"All checks: exit 0 held / 1 VIOLATION / >=2 machinery error. Known findings in /verif/known_findings.txt."}
json.dump(m,open('/verif/MANIFEST.json','w'),indent=1)
print(len(checks),"checks,",len(na),"not applicable")
