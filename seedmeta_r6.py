#!/usr/bin/env python3
"""Adds property / needs_to_manifest / source to the meta.json of the round-6 seeds (changes that only manifest at a size, count or offset threshold)."""
import json,os
N={
"C01-8":"a token longer than twice the preallocated parsing buffer (2048 bytes by default) buffered across writes, completed by a write that also ends inside the next token: Arena::shift 'gives memory back' and keeps the wrong bytes (memory/arena.rs)",
"C01-9":"legacy double-byte encoding (Shift_JIS, GBK, Big5, EUC-KR), a text handler, a write ending on the lead byte of a character whose trail byte is ASCII after the decoder has produced some text, and a next piece of >= 1024 ASCII bytes: the zero-copy fast path is taken while the decoder holds the lead byte (rewritable_units/text_decoder.rs)",
"C07-12":"set_inner_content() then remove()/replace(), or replace() then prepend/append then replace()/remove() on one element: the clean-up is skipped when the content is 'already being dropped' (rewritable_units/element.rs)",
"C07-13":"a start tag with the same attribute name at least twice + remove_attribute(name): only the first occurrence is removed (rewritable_units/tokens/attributes.rs)",
"C14-10":"a character of >= 3 bytes arriving over three or more writes, two consecutive ones containing only its bytes, with a text handler: the chunk range loses the first byte (rewritable_units/text_decoder.rs)",
"C14-11":"value_source_location() of an attribute on a start tag emitted in a write other than the first: value ranges relative to the current parser input (rewritable_units/tokens/attributes.rs)",
"C16-12":"same change as C07-13 seen through the read API: has_attribute / get_attribute still see the attribute after remove_attribute (rewritable_units/tokens/attributes.rs)",
"C16-13":"an element matched only by a text!/comments! handler, then (with no element-handler match on a content-bearing element in between) a void element or a self-closing foreign element read by an element handler: can_have_content() is true (rewriter/handlers_dispatcher.rs, two cooperating edits)",
"C08-8":"a text handler on a script / style / xmp / CDATA text chunk calling before/after/replace with ContentType::Text and a string containing that context's terminator: written unescaped (rewritable_units/tokens/text_chunk.rs)",
"C08-9":"non-UTF-8 document, set_attribute with a value containing a character the encoding cannot represent followed by more characters: numeric references overflow a fixed-size buffer, the rest of the value is dropped (base/bytes.rs)",
"C09-10":"tag-scan mode, <script><!-- then '<script' directly followed by a character other than whitespace, '/' or '>' (<scripts, <script1), then script text without '<' over several writes: the tag start stays marked, everything from that '<' is held back (syntax/text/script_data/escaped.rs + double_escaped.rs, two cooperating edits)",
"C09-11":"no capturing handler, a write ending inside a character-sequence match with no tag start marked (<!-, <!DOC, ']' in CDATA, anywhere in an escaped script section), then data without a tag start: phantom tag_start = 0 in the next chunk (parser/tag_scanner/mod.rs)",
"C03-10":"a start tag name of 13+ bytes whose first letter is in k..z and whose remaining twelve characters hash like a known element (k1111111title, voreignobject): the name hash accepts one character too many (html/local_name.rs)",
"C03-11":"tag-scan mode inside a MathML text integration point, an end tag with an unhashable name (</x-y>, </h7>) directly followed by a start tag: the stale 'this is an end tag' flag makes the start tag invisible (parser/tag_scanner/actions.rs)",
"C13-12":"same family as C01-9 (fast path re-enabled for a 'drained' pending decoder when the next piece is >= 1024 bytes) (rewritable_units/text_decoder.rs)",
"C13-13":"same family as C13-11 / C13-7 (meta charset switch applied before the next token: never, or after raw bytes of the new encoding, when the parser falls back to tag scanning) (transform_stream/dispatcher.rs)",
}
for sid,need in N.items():
    mp=f"/verif/seeded/{sid}/meta.json"
    if not os.path.exists(mp):
        print("missing",sid); continue
    m=json.load(open(mp))
    m["property"]=sid.split("-")[0]
    m["needs_to_manifest"]=need
    m["source"]="independent sub-agent, round 6 (given only the property text and a scratch worktree; asked for changes that manifest only at a size, count or offset threshold)"
    json.dump(m,open(mp,"w"),indent=1)
print("ok")
