#!/usr/bin/env python3
"""Adds property / needs_to_manifest / source to the meta.json of the round-7 seeds (counts, depths and sizes beyond the usual handful; C API on less common paths)."""
import json,os
N={
"C04-12":">= 65 registered selectors and one start tag matched by two of them whose ids are >= 32 and fall into different word classes of the match-id set (.c40 and .c70 of 80): DenseHashSet::union widens the receiver only while it is inline (selectors_vm/match_info.rs)",
"C04-13":"an of-type selector + an ancestor's end tag implicitly closing elements of one type open at two or more depths, later an element of that type at exactly the stale depth in another subtree: TypedChildCounterMap::pop_to discards one level only (selectors_vm/stack.rs)",
"C06-10":">= 33 element handlers on one rewriter and an element matched only by handlers with id >= 32: DenseHashSet::iter counts words from the first non-zero word, ids are shifted down by 32 (selectors_vm/match_info.rs)",
"C06-11":"tag-scan mode, an end tag with an un-hashable name inside an HTML island under MathML directly followed by a start tag: stale is_in_end_tag (same family as C06-8 / C03-11) (parser/tag_scanner/actions.rs)",
"C10-12":"same family as C10-10 (Arena::append reserves the accounted amount while the buffer is only partly filled) (memory/arena.rs)",
"C10-13":"same family as C10-11 (LimitedVec::push falls back to the minimal step when doubling does not fit: success is not monotone in the limit) (memory/limited_vec.rs)",
"C12-12":"non-UTF-8 document + a document-end (or bail-out) handler whose appended content makes an encoder round start on a non-ASCII character: TextEncoder::encode hands an empty slice to the sink in the middle of end() (rewritable_units/text_encoder.rs)",
"C12-13":"same family as C12-11 (write(b\"\") on a poisoned rewriter returns Ok) (rewriter/mod.rs)",
"C17-10":"same family as C17-8 (C streaming sink: a fragment that is valid UTF-8 on its own goes through write_str while a partial character is pending) (c-api/src/streaming.rs)",
"C17-11":"same family as C17-4 / C17-7 (save_last_error keeps the first unfetched error) (c-api/src/errors.rs)",
"C05-12":"same change as C06-10 (DenseHashSet::iter) seen through dispatch: text, comment and end-tag handlers go to the selector 32 ids below (selectors_vm/match_info.rs)",
"C05-13":"an outer element's handler has called remove() / replace() / set_inner_content() and a matched element inside it registers on_end_tag: the registration is skipped, the inner end-tag handler never runs (rewriter/handlers_dispatcher.rs)",
"C11-10":"adjust_charset_on_meta_tag + graceful_bail_out_on_content_handler_error + a second user handler on the <meta charset> element itself returning an error + a bail-out handler appending a non-ASCII character: BailOut uses the announced-but-not-yet-applied encoding (transform_stream/dispatcher.rs)",
"C11-11":"memory graceful flag, a write made while nothing is buffered whose chunk has a non-empty consumed prefix followed by an unfinished tag that does not fit the budget: the init_with failure site flushes the whole chunk, the consumed prefix reaches the sink twice (transform_stream/mod.rs)",
"C15-11":"same family as C15-7 (non-UTF-8 document, one inserted piece with >= 1 MiB after a non-ASCII character: empty scratch buffer, encode loop never ends) (rewritable_units/text_encoder.rs)",
"C15-12":">= 65 536 simultaneously open elements whose handler called on_end_tag (or that many selectors): handler locator narrowed to 16 bits, debug assertion / silently dropped handlers (rewriter/handlers_dispatcher.rs)",
}
for sid,need in N.items():
    mp=f"/verif/seeded/{sid}/meta.json"
    if not os.path.exists(mp):
        print("missing",sid); continue
    m=json.load(open(mp))
    m["property"]=sid.split("-")[0]
    m["needs_to_manifest"]=need
    m["source"]="independent sub-agent, round 7 (given only the property text and a scratch worktree; asked for changes that manifest beyond a count / depth / size, or on less common C-API paths)"
    json.dump(m,open(mp,"w"),indent=1)
print("ok")
