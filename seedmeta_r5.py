#!/usr/bin/env python3
"""Adds property / needs_to_manifest / source to the meta.json of the round-5 seeds (changes that need two or more features or steps combined)."""
import json,os
N={
"C07-10":"set_inner_content() (or its streaming form) and AFTERWARDS prepend/append on the same element, typically from a second handler with another selector: the later prepend/append is dropped (rewritable_units/element.rs)",
"C07-11":"an on_end_tag handler calling end.streaming_after() while other content is already queued after that end tag (Element::after from the same or another handler): appended instead of prepended (rewritable_units/tokens/end_tag.rs)",
"C05-10":"<svg> nested directly in <svg> (or math in math), the inner one closed while the outer stays open, then a tag whose treatment depends on the namespace: the namespace stack does not grow for the nested root (parser/tree_builder_simulator/mod.rs)",
"C05-11":"a non-void HTML element written with '/>' AND a registered selector whose tag-name part accepts it and that has an attribute part (VM bails out to the attribute path): the element is treated as self-closing, never pushed (selectors_vm/mod.rs)",
"C02-10":"parser starts in tag-scan mode, a handler matches <svg ...>/<math ...>, write boundary inside that start tag after its name and the '<' is not the first byte of its chunk: the tree-builder feedback directive is dropped, the namespace is entered twice (parser/lexer/mod.rs)",
"C02-11":"tag-scan mode inside <script> with '<!--' in it, the </script> end tag has to be handed to the lexer (on_end_tag / content removal), write boundary right after the '<' of '</script>' (parser/tag_scanner/mod.rs)",
"C06-8":"MathML text integration point or annotation-xml[encoding=text/html], inside it an end tag with an unhashable name (</x-y>, </h7>), parser in tag-scan mode: is_in_end_tag stays set, the following start tag is treated as an end tag (parser/tag_scanner/actions.rs)",
"C06-9":"<svg> start tag whose parent is MathML but not an integration point, parsed in lexer mode because some other handler captures: namespace 'before the tag' sampled too early (parser/lexer/actions.rs)",
"C11-8":"graceful bail-out + an element handler removing content + a write boundary while emission is still disabled + a failure in a later write before the first captured lexeme of that chunk (text handler failing on last_in_text_node, stack overflow on its first tag, buffer append): stale remaining_content_start, bytes after the removed element are lost (transform_stream/dispatcher.rs, two cooperating edits)",
"C11-9":"graceful_bail_out_on_content_handler_error + a failing document-end handler + input ending in the middle of a token buffered by the last write: the buffered tail is flushed twice (transform_stream/mod.rs)",
"C10-10":"growth of the parsing buffer while it is only partly filled, under a memory limit: Arena::append reserves the accounted amount instead of the needed one, real capacity exceeds the accounting (memory/arena.rs)",
"C10-11":">=17 simultaneously open elements, then input that has to be buffered, and two limits M1 < M2 between which doubling the stack fits but the buffer no longer does: the run succeeds under M1 and fails under the larger M2 (memory/limited_vec.rs)",
"C13-10":"adjust_charset_on_meta_tag, a meta switch from UTF-8 to a legacy encoding, a text handler after it, and text consisting of bytes that are well-formed UTF-8 (C2..DF A1..BF pairs): TextDecoder caches 'UTF-8' at construction (rewritable_units/text_decoder.rs)",
"C13-11":"adjust_charset_on_meta_tag with only selector-scoped handlers and a write boundary (or the end of the document with an end handler appending non-ASCII) between the meta tag and the next captured token: the switch is applied lazily (transform_stream/dispatcher.rs)",
"C14-8":"a text handler and a character of >=3 bytes completed only by the third write that touches it (middle writes contain only its continuation bytes): the chunk range loses the first byte (rewritable_units/text_decoder.rs)",
"C14-9":"set_attribute on an attribute that exists in the source, then value_source_location() read by the same or a later handler on that element: the rewritten attribute still claims a source range (rewritable_units/tokens/attributes.rs)",
"C16-10":"set_attribute(N) for a name not in the source, then remove_attribute(N), then any read: the removal fast path looks at the source attributes only (rewritable_units/tokens/attributes.rs)",
"C16-11":"enable_esi_tags + <esi:include> inside svg/math (not in an integration point) without '/>' + a handler reading can_have_content / registering an end tag handler: ESI void check hoisted in front of the namespace check (selectors_vm/stack.rs)",
"C12-10":"a bail-out handler registered, the matching graceful flag OFF (or an ambiguity error), and the error raised by the EOF parse inside end() (failing handler on the last text chunk / an unterminated comment): bail-out handlers run ungated (transform_stream/mod.rs)",
"C12-11":"any write() returning an error, then write(b\"\"): the zero-length write returns Ok in front of the poison check (rewriter/mod.rs)",
"C18-8":"rewriter A buffers an incomplete token (buffer grows to N bytes) and is dropped on thread T; the next rewriter B on T has a limit < N and input that must buffer more than its limit: the recycled per-thread buffer is not accounted, B never fails (memory/arena.rs)",
"C18-9":"two rewriters with different document encodings on one thread whose handlers ask for the same non-ASCII attribute name, the second one's request directly following the first one's: per-thread single-entry memo keyed by the name only (rewritable_units/tokens/attributes.rs)",
"C04-10":">=33 match ids and the same selector (or a selector-list item equal to another selector) registered with ids in different 32-bit words: DenseHashSet::union trims at the first non-zero word, the handler with the higher id never runs (selectors_vm/...)",
"C04-11":"a parent that matched the left side of a child combinator AND an open ancestor with a descendant continuation whose compound has an attribute part, while no entry-point instruction bails out for the tag: hereditary jumps run before the parent's jumps and the recovery point is not updated (selectors_vm/mod.rs)",
}
for sid,need in N.items():
    mp=f"/verif/seeded/{sid}/meta.json"
    if not os.path.exists(mp):
        print("missing",sid); continue
    m=json.load(open(mp))
    m["property"]=sid.split("-")[0]
    m["needs_to_manifest"]=need
    m["source"]="independent sub-agent, round 5 (given only the property text and a scratch worktree; asked for changes that need several features or steps combined)"
    json.dump(m,open(mp,"w"),indent=1)
print("ok")
