//! R-attr: the WHATWG tokenizer's tag-name and attribute states over the bytes of ONE start
//! tag (`<` … `>`), written from the specification (13.2.5.8 and 13.2.5.32–40). Gives byte
//! ranges relative to the tag start.

#[derive(Clone, Debug, PartialEq, Eq)]
pub struct RAttr {
    pub name: (usize, usize),
    pub value: (usize, usize),
    pub has_value: bool,
}

#[derive(Clone, Debug, PartialEq, Eq)]
pub struct RTag {
    pub name: (usize, usize),
    pub attrs: Vec<RAttr>,
    pub self_closing: bool,
    /// index just past the closing '>'
    pub end: usize,
}

fn ws(b: u8) -> bool {
    matches!(b, b' ' | b'\n' | b'\r' | b'\t' | 0x0C)
}

/// Parse a start tag beginning at tag[0] == '<'. Returns None if the tag is not complete.
pub fn parse_start_tag(tag: &[u8]) -> Option<RTag> {
    if tag.len() < 3 || tag[0] != b'<' || !tag[1].is_ascii_alphabetic() {
        return None;
    }
    #[derive(PartialEq)]
    enum S {
        TagName,
        BeforeName,
        Name,
        AfterName,
        BeforeValue,
        Dq,
        Sq,
        Unq,
        AfterQuoted,
        SelfClosing,
    }
    let mut i = 1;
    let mut st = S::TagName;
    let mut name = (1, 1);
    let mut attrs: Vec<RAttr> = vec![];
    let mut cur: Option<RAttr> = None;
    macro_rules! finish {
        () => {
            if let Some(a) = cur.take() {
                attrs.push(a);
            }
        };
    }
    while i < tag.len() {
        let c = tag[i];
        match st {
            S::TagName => {
                if ws(c) {
                    name.1 = i;
                    st = S::BeforeName;
                } else if c == b'/' {
                    name.1 = i;
                    st = S::SelfClosing;
                } else if c == b'>' {
                    name.1 = i;
                    return Some(RTag { name, attrs, self_closing: false, end: i + 1 });
                }
            }
            S::BeforeName => {
                if ws(c) {
                } else if c == b'/' {
                    st = S::SelfClosing;
                } else if c == b'>' {
                    return Some(RTag { name, attrs, self_closing: false, end: i + 1 });
                } else {
                    cur = Some(RAttr { name: (i, i + 1), value: (i + 1, i + 1), has_value: false });
                    st = S::Name;
                }
            }
            S::Name => {
                if ws(c) {
                    st = S::AfterName;
                } else if c == b'/' {
                    finish!();
                    st = S::SelfClosing;
                } else if c == b'>' {
                    finish!();
                    return Some(RTag { name, attrs, self_closing: false, end: i + 1 });
                } else if c == b'=' {
                    st = S::BeforeValue;
                } else if let Some(a) = cur.as_mut() {
                    a.name.1 = i + 1;
                    a.value = (i + 1, i + 1);
                }
            }
            S::AfterName => {
                if ws(c) {
                } else if c == b'/' {
                    finish!();
                    st = S::SelfClosing;
                } else if c == b'=' {
                    st = S::BeforeValue;
                } else if c == b'>' {
                    finish!();
                    return Some(RTag { name, attrs, self_closing: false, end: i + 1 });
                } else {
                    finish!();
                    cur = Some(RAttr { name: (i, i + 1), value: (i + 1, i + 1), has_value: false });
                    st = S::Name;
                }
            }
            S::BeforeValue => {
                if ws(c) {
                } else if c == b'"' {
                    if let Some(a) = cur.as_mut() {
                        a.value = (i + 1, i + 1);
                        a.has_value = true;
                    }
                    st = S::Dq;
                } else if c == b'\'' {
                    if let Some(a) = cur.as_mut() {
                        a.value = (i + 1, i + 1);
                        a.has_value = true;
                    }
                    st = S::Sq;
                } else if c == b'>' {
                    finish!();
                    return Some(RTag { name, attrs, self_closing: false, end: i + 1 });
                } else {
                    if let Some(a) = cur.as_mut() {
                        a.value = (i, i + 1);
                        a.has_value = true;
                    }
                    st = S::Unq;
                }
            }
            S::Dq | S::Sq => {
                let q = if st == S::Dq { b'"' } else { b'\'' };
                if c == q {
                    finish!();
                    st = S::AfterQuoted;
                } else if let Some(a) = cur.as_mut() {
                    a.value.1 = i + 1;
                }
            }
            S::Unq => {
                if ws(c) {
                    finish!();
                    st = S::BeforeName;
                } else if c == b'>' {
                    finish!();
                    return Some(RTag { name, attrs, self_closing: false, end: i + 1 });
                } else if let Some(a) = cur.as_mut() {
                    a.value.1 = i + 1;
                }
            }
            S::AfterQuoted => {
                if ws(c) {
                    st = S::BeforeName;
                } else if c == b'/' {
                    st = S::SelfClosing;
                } else if c == b'>' {
                    return Some(RTag { name, attrs, self_closing: false, end: i + 1 });
                } else {
                    st = S::BeforeName;
                    continue; // reconsume
                }
            }
            S::SelfClosing => {
                if c == b'>' {
                    return Some(RTag { name, attrs, self_closing: true, end: i + 1 });
                } else {
                    st = S::BeforeName;
                    continue; // reconsume
                }
            }
        }
        i += 1;
    }
    None
}
