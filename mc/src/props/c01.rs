//! C01 Pass-through identity.

use crate::alpha::*;
use crate::common::*;
use crate::drive::*;
use crate::explore::*;
use serde_json::{Value, json};

const RULE: &str = "every string over the fragment alphabet F (len<=k) and the byte alphabet B16 (len<=k) x observer handler sets x strict x encodings x schedules (L0, every 1-cut, 2-cuts, byte-wise, empty writes); non-trivial = distinct input for which a handler fired or a cut fell strictly inside the input";

/// The oracle for one execution. `None` = holds.
pub fn check(p: &Prepared, input: &[u8], sched: &Sched) -> Option<String> {
    let chunks = sched.chunks(input);
    let rr = run(p, &chunks, true);
    check_rr(p, input, sched, &rr)
}

fn check_rr(p: &Prepared, input: &[u8], sched: &Sched, rr: &RunResult) -> Option<String> {
    if let Some(m) = rr.panicked() {
        return Some(format!("panic: {m}"));
    }
    match rr.first_failure() {
        None => {}
        Some((_, CallRes::Err(k, _))) if *k == ERR_AMBIG && p.cfg.strict => {
            // (text a handler looked at is normalised through decode/encode: for input that does
            // not round-trip in the encoding the sink is not comparable byte for byte)
            let rt = if p.cfg.adjust_charset { roundtrips_meta(p.encoding, input) } else { roundtrips(p.encoding, input) };
            if !input.starts_with(&rr.out) && (rt || !has_text_handler(&p.cfg)) {
                return Some(format!(
                    "ambiguity error but sink {:?} is not a prefix of the input",
                    lossy(&rr.out)
                ));
            }
            return None;
        }
        Some((i, r)) => return Some(format!("call #{i} failed unexpectedly: {}", r.short())),
    }
    let rt = if p.cfg.adjust_charset { roundtrips_meta(p.encoding, input) } else { roundtrips(p.encoding, input) };
    if has_text_handler(&p.cfg) && !rt {
        // documented exception: text is normalised through decode/encode. Only schedule
        // invariance of the output is demanded.
        if sched.cuts.is_empty() && sched.empty_at.is_none() {
            return None;
        }
        let l0 = run(p, &[input], true);
        if l0.out != rr.out {
            return Some(format!(
                "non-round-trippable text: output differs between schedules: L0 {:?} vs {:?}",
                lossy(&l0.out),
                lossy(&rr.out)
            ));
        }
        return None;
    }
    if rr.out != input {
        return Some(format!(
            "output differs from input: out={:?} ({})",
            lossy(&rr.out),
            hex(&rr.out)
        ));
    }
    None
}

fn case_json(cfg: &Cfg, input: &[u8], sched: &Sched) -> Value {
    json!({"cfg": cfg, "input_hex": hex(input), "input_lossy": lossy(input), "sched": sched})
}

pub fn replay(case: &Value) -> Option<String> {
    let cfg: Cfg = serde_json::from_value(case["cfg"].clone()).ok()?;
    let input = unhex(case["input_hex"].as_str()?);
    let sched: Sched = serde_json::from_value(case["sched"].clone()).ok()?;
    let p = Prepared::new(cfg).ok()?;
    check(&p, &input, &sched)
}

fn sweep(ctx: &Ctx, name: &str, space: Space, cfgs: &[Prepared], lv: Levels) {
    let n = space.size();
    par_for(n, 64, |i| {
        if ctx.over_time() {
            return;
        }
        let mut idx = vec![];
        let mut raw = vec![];
        space.render(i, &mut idx, &mut raw);
        let mut scheds = vec![];
        for p in cfgs {
            let mut inputs = vec![adapt_to_encoding(&raw, p.encoding)];
            if p.cfg.adjust_charset {
                // second variant: what follows the declaration written in the declared encoding
                // (bytes that are not UTF-8), not only as UTF-8 that happens to be valid there
                if let Some((pre, Some(label))) = MCTX.iter().find(|(pre, _)| raw.starts_with(pre.as_bytes())) {
                    if let Some(enc1) = encoding_rs::Encoding::for_label(label.as_bytes()) {
                        let mut v = pre.as_bytes().to_vec();
                        v.extend_from_slice(&adapt_to_encoding(&raw[pre.len()..], enc1));
                        if v != inputs[0] {
                            inputs.push(v);
                        }
                    }
                }
            }
            for input in inputs {
            schedules(input.len(), lv, &mut scheds);
            let mut fired = false;
            for s in std::iter::once(&Sched::whole()).chain(scheds.iter()) {
                let chunks = s.chunks(&input);
                let rr = run(p, &chunks, true);
                ctx.exec(rr.results.len());
                ctx.validated(1);
                fired |= !rr.events.is_empty();
                ctx.states.insert(digest(&(&input, &rr.out_len_after, rr.events.len())));
                ctx.outcomes.insert(digest(&rr.events));
                if let Some(msg) = check_rr(p, &input, s, &rr) {
                    let cfg = p.cfg.clone();
                    let (inp, sc) = (input.clone(), s.clone());
                    ctx.violation(msg, case_json(&cfg, &input, s), &|| {
                        let p2 = Prepared::new(cfg.clone()).unwrap();
                        check(&p2, &inp, &sc)
                    });
                }
            }
            if fired || input.len() >= 2 {
                ctx.nontrivial.insert(digest(&input));
            }
            }
        }
        if i % 50_021 == 7 {
            ctx.sample(json!({"space": space.label(), "input": lossy(&raw), "configs": cfgs.len()}));
        }
    });
    if !ctx.capped.load(std::sync::atomic::Ordering::Relaxed) {
        ctx.level_done(name);
    }
}

/// Documents whose sizes sit just below, at and just above the implementation's thresholds.
fn scaled_sweep(ctx: &Ctx, cfgs: &[Prepared]) {
    let docs = scaled_docs(ctx.quick());
    let quick = ctx.quick();
    par_for(docs.len(), 1, |i| {
        if ctx.over_time() {
            return;
        }
        let (label, raw) = &docs[i];
        for p in cfgs {
            let input = adapt_to_encoding(raw, p.encoding);
            let scheds = scaled_scheds(input.len(), quick);
            for s in std::iter::once(&Sched::whole()).chain(scheds.iter()) {
                let chunks = s.chunks(&input);
                let rr = run(p, &chunks, true);
                ctx.exec(rr.results.len());
                ctx.validated(1);
                ctx.states.insert(digest(&(i, &s.cuts.len(), s.cuts.first(), rr.events.len())));
                if let Some(msg) = check_rr(p, &input, s, &rr) {
                    let cfg = p.cfg.clone();
                    let (inp, sc) = (input.clone(), s.clone());
                    ctx.violation(msg, case_json(&cfg, &input, s), &|| {
                        let p2 = Prepared::new(cfg.clone()).unwrap();
                        check(&p2, &inp, &sc)
                    });
                }
            }
            ctx.nontrivial.insert(digest(&(&input, &p.cfg.handlers.len())));
        }
        if i % 97 == 3 {
            ctx.sample(json!({"space": "scaled documents", "document": label, "configs": cfgs.len()}));
        }
    });
    if !ctx.capped.load(std::sync::atomic::Ordering::Relaxed) {
        ctx.level_done(&format!("{} scaled documents (sizes around 12, 32, 64, 256, 1024, 2048) x {} configs x fixed chunk sizes + cuts around the thresholds", docs.len(), cfgs.len()));
    }
}

fn prep(menu: &[(&str, Vec<HSpec>)], pick: &[&str], strict: &[bool], enc: &str) -> Vec<Prepared> {
    let mut v = vec![];
    for (name, hs) in menu {
        if !pick.is_empty() && !pick.contains(name) {
            continue;
        }
        for &s in strict {
            v.push(Prepared::new(Cfg::with(hs.clone()).strict(s).enc(enc)).unwrap());
        }
    }
    v
}

pub fn run_check(ctx: &Ctx) -> i32 {
    let menu = observer_menu();
    let full = prep(&menu, &[], &[true, false], "UTF-8");
    let small = prep(&menu, &["none", "doc-text", "el(a[b])", "everything"], &[true], "UTF-8");
    let small_ns = prep(&menu, &["none", "everything"], &[false], "UTF-8");
    let enc_cfgs: Vec<Prepared> = ["windows-1252", "Shift_JIS", "GB18030"]
        .iter()
        .flat_map(|e| prep(&menu, &["doc-text", "everything", "none"], &[true], e))
        .collect();
    let l1 = Levels { l1: true, l2_max_len: 0, bytewise: true, empties: false };
    let l12 = Levels { l1: true, l2_max_len: 14, bytewise: true, empties: true };
    let k = F.len();
    // charset declarations honoured (adjust_charset_on_meta_tag): the text after the declaration is
    // decoded and re-encoded in the new encoding
    let meta_cfgs: Vec<Prepared> = menu
        .iter()
        .filter(|(n, _)| ["none", "doc-text", "everything", "el(a[b])"].contains(n))
        .flat_map(|(n, hs)| {
            let mut v = vec![Prepared::new(Cfg { adjust_charset: true, ..Cfg::with(hs.clone()).strict(false) }).unwrap()];
            // strict mode too (a run stopped by the ambiguity guard has emitted a prefix of the input)
            if ["doc-text", "everything"].contains(n) {
                v.push(Prepared::new(Cfg { adjust_charset: true, ..Cfg::with(hs.clone()).strict(true) }).unwrap());
            }
            v
        })
        .collect();
    sweep(ctx, &format!("8 charset-declaring prefixes x F<={} x 6 configs (strict on and off) with adjust_charset_on_meta_tag x L0,L1,LB", if ctx.quick() { 2 } else { 3 }), Space::MetaFrags { k, max: if ctx.quick() { 2 } else { 3 } }, &meta_cfgs, l1);
    {
        let mut sc = prep(&menu, &["none", "doc-text", "el(a[b])", "everything"], &[false], "UTF-8");
        sc.extend(prep(&menu, &["everything"], &[false], "windows-1252"));
        sc.extend(prep(&menu, &["doc-text"], &[false], "Shift_JIS"));
        scaled_sweep(ctx, &sc);
    }
    if ctx.quick() {
        sweep(ctx, "F<=2 x full menu x strict{t,f} x L0,L1,L2(len<=14),LB,LE", Space::Frags { k, max: 2 }, &full, l12);
        sweep(ctx, "Fcore<=3 x full menu x L0,L1,LB", Space::Frags { k: F_CORE, max: 3 }, &full, l1);
        sweep(ctx, "F<=3 x 4 configs x L0,L1,LB", Space::Frags { k, max: 3 }, &small, l1);
        sweep(ctx, "B16<=4 x 6 configs x L0,L1,L2,LB,LE", Space::Bytes { max: 4 }, &[small, small_ns].into_iter().flatten().collect::<Vec<_>>(), l12);
        sweep(ctx, "F<=2 x 3 encodings x 3 configs x L0,L1,L2,LB,LE", Space::Frags { k, max: 2 }, &enc_cfgs, l12);
        let all36: Vec<Prepared> = all_encodings().iter().flat_map(|e| prep(&menu, &["doc-text", "everything"], &[false], e.name())).collect();
        sweep(ctx, "F<=2 x all 36 encodings x {doc-text, everything} x L0,L1,LB", Space::Frags { k, max: 2 }, &all36, l1);
    } else {
        let l_all = Levels { l1: true, l2_max_len: 40, bytewise: true, empties: true };
        sweep(ctx, "F<=3 x full menu x strict{t,f} x L0,L1,L2,LB,LE", Space::Frags { k, max: 3 }, &full, l_all);
        sweep(ctx, "Fcore<=4 x full menu x L0,L1,LB", Space::Frags { k: F_CORE, max: 4 }, &full, l1);
        sweep(ctx, "F<=4 x 4 configs x L0,L1,LB", Space::Frags { k, max: 4 }, &small, l1);
        let b: Vec<Prepared> = [small, small_ns].into_iter().flatten().collect();
        sweep(ctx, "B16<=5 x 6 configs x L0,L1,L2,LB,LE", Space::Bytes { max: 5 }, &b, l_all);
        sweep(ctx, "B16<=6 x 6 configs x L0,L1,LB", Space::Bytes { max: 6 }, &b, l1);
        sweep(ctx, "F<=3 x 3 encodings x 3 configs x L0,L1,L2,LB,LE", Space::Frags { k, max: 3 }, &enc_cfgs, l_all);
        let all36: Vec<Prepared> = all_encodings().iter().flat_map(|e| prep(&menu, &["doc-text", "everything"], &[false], e.name())).collect();
        sweep(ctx, "F<=2 x all 36 encodings x {doc-text, everything} x L0,L1,L2,LB,LE", Space::Frags { k, max: 2 }, &all36, l_all);
    }
    ctx.finish(
        "model_checking",
        RULE,
        &[
            "alphabets F (70 fragments) and B16 as listed in DESIGN.md §1.2; nothing is claimed beyond the stated length bounds",
            "round-trip exception decided by encoding_rs (decode_without_bom_handling + encode)",
        ],
        true,
    )
}
