//! C06 Handler independence: fast tag-scan mode and full lexing mode agree.

use crate::alpha::*;
use crate::common::*;
use crate::drive::*;
use crate::explore::*;
use serde_json::{Value, json};

const RULE: &str = "every input (F<=k, foreign-content documents, B16<=k) x every pair (H, H u O): H from a menu of subject handler sets (observer and marker variants), O from every non-empty subset of {doc-text, doc-comments, doctype, el(*), el(a[b]) (attribute-dependent), el(select a) (sparse)} registered after or before H x strict x L0 + every 1-cut; oracle: H's own event log and the sink bytes identical in both runs; non-trivial = distinct (input,H) where H saw >=1 event";

/// Foreign-content / namespace / CDATA probes (mode switches must keep ns and CDATA decisions).
pub const FOREIGN: &[&str] = &[
    "<svg><a>x</a><![CDATA[<a>y</a>]]></svg><a>z</a>",
    "<svg><title><a>x</a></title><a/></svg>",
    "<math><mi><a>x</a></mi><a></a></math>",
    "<svg><foreignObject><a>x<![CDATA[q]]></a></foreignObject><a/></svg>",
    "<math><annotation-xml encoding=\"text/html\"><a>x</a></annotation-xml><a/></math>",
    "<svg><a><![CDATA[<a>]]></a><script>x<a></script></svg><script><a></script>",
    "<svg><desc><a></a></desc><a/><a>t</a></svg>",
    "<a><svg><a/><b><a></b></svg>",
    "<svg><![CDATA[x]]><a><![CDATA[y",
    "<math><a/><![CDATA[<a>]]><mtext><a>x</a></mtext></math>",
    "<select><a></select><textarea><a></textarea><a>",
    "<template><a><!--c--></a></template><a><!--d--></a>",
    // nested roots of the same kind, followed by content whose reading depends on the namespace
    "<div><svg><svg id=i><a/></svg><style>s<a>x</a></style><a/></svg><a>y</a></div>",
    "<math><math><mi>x</mi></math><![CDATA[<a>]]><a/><mi><a>t</a></mi></math><a>",
    "<svg><svg></svg><a/><title><a></title><![CDATA[<a>]]></svg><a>",
    "<svg><g><svg><g></g></svg></g><a/><desc><a>x</a></desc></svg>",
    // an svg island inside MathML annotation-xml
    "<math><semantics><annotation-xml encoding=\"SVG1.1\"><svg k=v><a/><title><a>t</a></title></svg></annotation-xml><a></a></semantics></math><a>",
];

fn subject_menu() -> Vec<(&'static str, Vec<HSpec>)> {
    let mark = |k, sel: &str, tag: &str| HSpec::with_ops(k, sel, vec![Op::Before(format!("\x01{tag}\x02"), true)]);
    vec![
        ("el(a)", vec![HSpec::obs(HKind::Element, "a")]),
        ("text(a)", vec![HSpec::obs(HKind::Text, "a")]),
        ("comments(a)", vec![HSpec::obs(HKind::Comments, "a")]),
        ("endtag(a)", vec![HSpec::obs_end_tag("a")]),
        ("el(title a),el(svg a)", vec![HSpec::obs(HKind::Element, "title a"), HSpec::obs(HKind::Element, "svg a")]),
        ("mark-el(a)", vec![mark(HKind::Element, "a", "m")]),
        ("mark-comments(a)", vec![mark(HKind::Comments, "a", "c")]),
        ("text(script),text(textarea)", vec![HSpec::obs(HKind::Text, "script"), HSpec::obs(HKind::Text, "textarea")]),
        // handlers that need the END tag of a foreign root (the scanner hands it to the lexer)
        ("endtag(svg),endtag(math),el(a)", vec![HSpec::obs_end_tag("svg"), HSpec::obs_end_tag("math"), HSpec::obs(HKind::Element, "a")]),
        ("el(svg),el(math),el(a)", vec![HSpec::obs(HKind::Element, "svg"), HSpec::obs(HKind::Element, "math"), HSpec::obs(HKind::Element, "a")]),
        ("mark-after(svg),mark-after(math),el(a)", vec![HSpec::with_ops(HKind::Element, "svg", vec![Op::After("\x01s\x02".into(), true)]), HSpec::with_ops(HKind::Element, "math", vec![Op::Append("\x01m\x02".into(), true)]), HSpec::obs(HKind::Element, "a")]),
    ]
}

fn observer_pool() -> Vec<HSpec> {
    vec![
        HSpec::obs(HKind::DocText, ""),
        HSpec::obs(HKind::DocComments, ""),
        HSpec::obs(HKind::DocDoctype, ""),
        HSpec::obs(HKind::Element, "*"),
        HSpec::obs(HKind::Element, "a[b]"),
        HSpec::obs(HKind::Element, "select a"),
    ]
}

struct Pair {
    h: Prepared,
    hu: Prepared,
    /// registration indices of H's handlers inside `hu`
    offset: u16,
    hn: u16,
}

fn build_pairs(subjects: &[(&str, Vec<HSpec>)], subsets: &[u32], strict: &[bool]) -> Vec<Pair> {
    let pool = observer_pool();
    let mut v = vec![];
    for (_, h) in subjects {
        for &mask in subsets {
            let o: Vec<HSpec> = pool.iter().enumerate().filter(|(i, _)| mask & (1 << i) != 0).map(|(_, s)| s.clone()).collect();
            for &st in strict {
                for before in [false, true] {
                    // O registered before H only for the first few masks (keeps the product bounded)
                    if before && mask.count_ones() != 1 {
                        continue;
                    }
                    let mut hu = vec![];
                    let offset;
                    if before {
                        hu.extend(o.clone());
                        offset = o.len() as u16;
                        hu.extend(h.clone());
                    } else {
                        offset = 0;
                        hu.extend(h.clone());
                        hu.extend(o.clone());
                    }
                    v.push(Pair {
                        h: Prepared::new(Cfg::with(h.clone()).strict(st)).unwrap(),
                        hu: Prepared::new(Cfg::with(hu).strict(st)).unwrap(),
                        offset,
                        hn: h.len() as u16,
                    });
                }
            }
        }
    }
    v
}

/// H together with a crowd of n element observers (selectors that never match, that match other
/// elements, or that match the same elements), registered before and after H: match ids beyond
/// the first / second / third word of the match-id sets.
fn crowd_pairs(subjects: &[(&str, Vec<HSpec>)], sizes: &[usize]) -> Vec<Pair> {
    let mut v = vec![];
    for (_, h) in subjects {
        for &n in sizes {
            for kind in 0..3 {
                let o: Vec<HSpec> = (0..n)
                    .map(|i| {
                        let sel = match kind {
                            0 => format!("zz{i}"),
                            1 => ["b", "i", "p", "svg", "title", "q"][i % 6].to_string(),
                            _ => ["a", "*", "a[b]", "[b]", "a:first-child", ":not(q)"][i % 6].to_string(),
                        };
                        HSpec { log: false, ..HSpec::obs(HKind::Element, &sel) }
                    })
                    .collect();
                for before in [false, true] {
                    let mut hu = vec![];
                    let offset;
                    if before {
                        hu.extend(o.clone());
                        offset = o.len() as u16;
                        hu.extend(h.clone());
                    } else {
                        offset = 0;
                        hu.extend(h.clone());
                        hu.extend(o.clone());
                    }
                    v.push(Pair { h: Prepared::new(Cfg::with(h.clone()).strict(false)).unwrap(), hu: Prepared::new(Cfg::with(hu).strict(false)).unwrap(), offset, hn: h.len() as u16 });
                }
            }
        }
    }
    v
}

fn project(events: &[Ev], offset: u16, hn: u16) -> Vec<Ev> {
    events
        .iter()
        .filter(|e| e.reg() >= offset && e.reg() < offset + hn)
        .map(|e| {
            let mut e = e.clone();
            match &mut e {
                Ev::El { reg, .. } | Ev::EndTag { reg, .. } | Ev::Comment { reg, .. } | Ev::Doctype { reg, .. }
                | Ev::Text { reg, .. } | Ev::DocEnd { reg } | Ev::OpRes { reg, .. } | Ev::ReRead { reg, .. } => *reg -= offset,
                Ev::BailOut { .. } => {}
            }
            e
        })
        .collect()
}

/// `normalised`: a text handler is registered on either side and the input does not round-trip in
/// the document's encoding — the documented exception of C01 (such text is normalised through
/// decode/encode), so the sink bytes are not comparable; H's events still are.
fn compare_runs(a: &RunResult, b: &RunResult, offset: u16, hn: u16, normalised: bool) -> Option<String> {
    if let Some(m) = a.panicked().or(b.panicked()) {
        return Some(format!("panic: {m}"));
    }
    let fa = a.first_failure().and_then(|(_, r)| r.err_kind());
    let fb = b.first_failure().and_then(|(_, r)| r.err_kind());
    if fa != fb {
        return Some(format!("result differs: H {:?} vs H u O {:?}", fa, fb));
    }
    let ea = project(&a.events, 0, hn);
    let eb = project(&b.events, offset, hn);
    if ea != eb {
        let i = ea.iter().zip(eb.iter()).position(|(x, y)| x != y).unwrap_or(ea.len().min(eb.len()));
        return Some(format!(
            "H's events differ at #{i}: alone {:?} vs with observers {:?} (lens {} vs {})",
            ea.get(i), eb.get(i), ea.len(), eb.len()
        ));
    }
    if fa.is_none() && a.out != b.out && !normalised {
        return Some(format!("sink bytes differ: alone {:?} vs with observers {:?}", lossy(&a.out), lossy(&b.out)));
    }
    None
}

pub fn check(h: &Prepared, hu: &Prepared, offset: u16, hn: u16, input: &[u8], sched: &Sched) -> Option<String> {
    let chunks = sched.chunks(input);
    let a = run(h, &chunks, true);
    let b = run(hu, &chunks, true);
    compare_runs(&a, &b, offset, hn, normalised(h, hu, input))
}

fn normalised(h: &Prepared, hu: &Prepared, input: &[u8]) -> bool {
    (has_text_handler(&h.cfg) || has_text_handler(&hu.cfg)) && !roundtrips(hu.encoding, input)
}

pub fn replay(case: &Value) -> Option<String> {
    let h: Cfg = serde_json::from_value(case["h"].clone()).ok()?;
    let hu: Cfg = serde_json::from_value(case["hu"].clone()).ok()?;
    let input = unhex(case["input_hex"].as_str()?);
    let sched: Sched = serde_json::from_value(case["sched"].clone()).ok()?;
    let offset = case["offset"].as_u64()? as u16;
    let hn = case["hn"].as_u64()? as u16;
    check(&Prepared::new(h).ok()?, &Prepared::new(hu).ok()?, offset, hn, &input, &sched)
}

fn one_input(ctx: &Ctx, pairs: &[Pair], input: &[u8], lv: Levels) {
    let mut scheds = vec![];
    schedules(input.len(), lv, &mut scheds);
    for pr in pairs {
        let mut saw = false;
        for s in std::iter::once(&Sched::whole()).chain(scheds.iter()) {
            let chunks = s.chunks(input);
            let a = run(&pr.h, &chunks, true);
            let b = run(&pr.hu, &chunks, true);
            ctx.exec(a.results.len() + b.results.len());
            ctx.validated(1);
            saw |= !a.events.is_empty();
            ctx.states.insert(digest(&(input, &s.cuts, &b.ev_len_after)));
            ctx.outcomes.insert(digest(&(&a.events, &a.out)));
            if let Some(msg) = compare_runs(&a, &b, pr.offset, pr.hn, normalised(&pr.h, &pr.hu, input)) {
                let (hc, huc, inp, sc, off, hn) = (pr.h.cfg.clone(), pr.hu.cfg.clone(), input.to_vec(), s.clone(), pr.offset, pr.hn);
                ctx.violation(
                    msg,
                    json!({"h": hc, "hu": huc, "offset": off, "hn": hn, "input_hex": hex(input), "input_lossy": lossy(input), "sched": sc}),
                    &|| check(&Prepared::new(hc.clone()).unwrap(), &Prepared::new(huc.clone()).unwrap(), off, hn, &inp, &sc),
                );
            }
        }
        if saw {
            ctx.nontrivial.insert(digest(&(input, &pr.h.cfg)));
        }
    }
}

fn sweep(ctx: &Ctx, name: &str, space: Space, pairs: &[Pair], lv: Levels) {
    sweep_space(ctx, name, space, &|i, raw| {
        one_input(ctx, pairs, raw, lv);
        if i % 30_011 == 5 {
            ctx.sample(json!({"space": space.label(), "input": lossy(raw), "pairs": pairs.len()}));
        }
    });
}

pub fn run_check(ctx: &Ctx) -> i32 {
    let subjects = subject_menu();
    let all_masks: Vec<u32> = (1..64).collect();
    let few_masks: Vec<u32> = vec![0b000001, 0b000010, 0b001000, 0b010000, 0b100000, 0b000111, 0b111111];
    let l1 = Levels { l1: true, l2_max_len: 0, bytewise: false, empties: false };
    let l0 = Levels { l1: false, l2_max_len: 0, bytewise: true, empties: false };
    let k = F.len();
    let foreign = |pairs: &[Pair], lv: Levels, name: &str| {
        par_for(FOREIGN.len(), 1, |i| one_input(ctx, pairs, FOREIGN[i].as_bytes(), lv));
        ctx.sample(json!({"space": "foreign", "input": FOREIGN[0], "pairs": pairs.len()}));
        ctx.level_done(name);
    };
    if ctx.quick() {
        let full = build_pairs(&subjects, &all_masks, &[true]);
        let few = build_pairs(&subjects, &few_masks, &[true, false]);
        let two = build_pairs(&subjects, &[0b001000, 0b111111], &[true]);
        sweep(ctx, "F<=2 x 11 subjects x all 63 observer subsets x L0,L1", Space::Frags { k, max: 2 }, &full, l1);
        foreign(&full, l1, "17 foreign-content documents x all pairs x L0,L1");
        sweep(ctx, "Fcore<=3 x 11 subjects x 7 observer subsets x strict{t,f} x L0,LB", Space::Frags { k: F_CORE, max: 3 }, &few, l0);
        sweep(ctx, "B16<=3 x 11 subjects x 7 observer subsets x strict{t,f} x L0,L1", Space::Bytes { max: 3 }, &few, l1);
        let crowd = crowd_pairs(&subjects, &[33, 65]);
        sweep(ctx, "F<=2 x 11 subjects x crowds of 33 / 65 element observers (never matching, matching other elements, matching the same elements; before and after H) x L0", Space::Frags { k, max: 2 }, &crowd, Levels { l1: false, l2_max_len: 0, bytewise: false, empties: false });
        sweep(ctx, "F<=3 x 11 subjects x 2 observer subsets x L0", Space::Frags { k, max: 3 }, &two, Levels { l1: false, l2_max_len: 0, bytewise: false, empties: false });
        // (the subjects whose handlers see foreign elements or their end tags)
        let fsubj: Vec<(&str, Vec<HSpec>)> = subjects.iter().enumerate().filter(|(i, _)| [0usize, 3, 4, 5, 8, 9].contains(i)).map(|(_, s)| s.clone()).collect();
        let ftwo = build_pairs(&fsubj, &[0b001000, 0b111111], &[true]);
        sweep(ctx, "10 foreign contexts x 58 foreign tag fragments<=2 x 6 subjects x 2 observer subsets x L0,L1", Space::Foreign { max: 2 }, &ftwo, l1);
    } else {
        let full = build_pairs(&subjects, &all_masks, &[true, false]);
        let few = build_pairs(&subjects, &few_masks, &[true, false]);
        sweep(ctx, "F<=2 x all pairs x L0,L1,LB", Space::Frags { k, max: 2 }, &full, Levels { l1: true, l2_max_len: 0, bytewise: true, empties: false });
        foreign(&full, Levels { l1: true, l2_max_len: 64, bytewise: true, empties: true }, "17 foreign-content documents x all pairs x L0,L1,L2,LB,LE");
        sweep(ctx, "F<=3 x 11 subjects x 7 observer subsets x strict{t,f} x L0,L1", Space::Frags { k, max: 3 }, &few, l1);
        sweep(ctx, "Fcore<=4 x 11 subjects x 7 observer subsets x L0,LB", Space::Frags { k: F_CORE, max: 4 }, &few, l0);
        sweep(ctx, "B16<=5 x 11 subjects x 7 observer subsets x L0,L1", Space::Bytes { max: 5 }, &few, l1);
        let crowd = crowd_pairs(&subjects, &[31, 32, 33, 64, 65, 97, 130]);
        sweep(ctx, "F<=2 x 11 subjects x crowds of 31..130 element observers (never matching, matching other elements, matching the same elements; before and after H) x L0,L1", Space::Frags { k, max: 2 }, &crowd, l1);
        sweep(ctx, "10 foreign contexts x 58 foreign tag fragments<=2 x 11 subjects x 7 observer subsets x strict{t,f} x L0,L1", Space::Foreign { max: 2 }, &few, l1);
    }
    ctx.finish(
        "model_checking",
        RULE,
        &["relational oracle: two runs of the same build differing only in the added observers", "an execution counts as one evaluation per pair (two rewriter runs)"],
        true,
    )
}
