//! C09 Low output latency: only an unfinished trailing construct is held back.

use crate::alpha::*;
use crate::common::*;
use crate::drive::*;
use crate::explore::*;
use serde_json::{Value, json};

const RULE: &str = "every input (F<=k, B16<=k) x configs {none, non-matching selectors, observers}; oracle A: after each write of every 1-/2-cut schedule the cumulative sink length equals that of a fresh rewriter given the same prefix in one write; oracle B (no capturing handlers): the held-back suffix after writing every prefix belongs to the regular language R-pending (empty | '<' | '</' | '<'['/']alpha name-chars* | proper prefix of a look-ahead keyword in its context); oracle C (observers): sink length >= start of the last token of the prefix (token list from a separate prefix+end() run) minus 3 bytes of a split character; non-trivial = distinct (input, prefix) with a non-empty held-back suffix";

fn is_ws(b: u8) -> bool {
    matches!(b, b' ' | b'\n' | b'\r' | b'\t' | 0x0C)
}

fn ci_prefix_of(p: &[u8], kw: &[u8]) -> bool {
    !p.is_empty() && p.len() < kw.len() && p.iter().zip(kw).all(|(a, b)| a.eq_ignore_ascii_case(b))
}

fn ends_with_ci(hay: &[u8], needle: &[u8]) -> bool {
    hay.len() >= needle.len() && hay[hay.len() - needle.len()..].eq_ignore_ascii_case(needle)
}

fn contains_ci(hay: &[u8], needle: &[u8]) -> bool {
    hay.windows(needle.len()).any(|w| w.eq_ignore_ascii_case(needle))
}

/// R-pending: is `p` (the held-back suffix of `written`) an allowed pending suffix?
/// Written from the statement of C09 and the tokenizer's look-ahead keywords, not from the code.
pub fn r_pending(written: &[u8], p: &[u8]) -> bool {
    if p.is_empty() {
        return true;
    }
    if p.len() > 64 + 2 {
        // a tag name of the alphabets never exceeds this; guards against runaway buffering
        // being accepted as "a long tag name"
    }
    let before = &written[..written.len() - p.len()];
    // (a) the start of one unfinished tag: '<' through its name
    if p[0] == b'<' {
        let rest = &p[1..];
        let rest = if rest.first() == Some(&b'/') { &rest[1..] } else { rest };
        if rest.is_empty() {
            return true;
        }
        if rest[0].is_ascii_alphabetic() && rest.iter().all(|&b| !is_ws(b) && b != b'/' && b != b'>') {
            return true;
        }
    }
    // (b) a partially matched look-ahead keyword, in the context that asks for it
    let (ctx, kwpart): (&[u8], &[u8]) = if p.starts_with(b"<!") {
        (&written[..written.len() - p.len() + 2], &p[2..])
    } else {
        (before, p)
    };
    if ends_with_ci(ctx, b"<!") {
        if ci_prefix_of(kwpart, b"--") && kwpart.iter().all(|&b| b == b'-') {
            return true;
        }
        if ci_prefix_of(kwpart, b"DOCTYPE") {
            return true;
        }
        if kwpart.len() < 7 && b"[CDATA[".starts_with(kwpart) && !kwpart.is_empty() {
            return true;
        }
    }
    if (p == b"]" || p == b"]]") && contains_ci(before, b"<![CDATA[") {
        return true;
    }
    if (ci_prefix_of(p, b"PUBLIC") || ci_prefix_of(p, b"SYSTEM")) && contains_ci(before, b"<!DOCTYPE") {
        return true;
    }
    // inside (double-)escaped script data the keyword SCRIPT is looked ahead at after '<' or '</'
    if ci_prefix_of(p, b"SCRIPT") && contains_ci(before, b"<script") && (before.ends_with(b"<") || before.ends_with(b"</")) {
        return true;
    }
    // inside script data: "<!--" escapes; a '-' may be looked ahead at ("--" after text)
    if p == b"-" && contains_ci(before, b"<script") {
        return true;
    }
    false
}

/// `p` is exactly one unfinished tag: '<' ['/'] letter ... without the '>' that ends it (a '>'
/// inside a quoted attribute value does not end a tag).
fn is_one_unfinished_tag(p: &[u8]) -> bool {
    if p.first() != Some(&b'<') {
        return false;
    }
    let mut i = 1;
    if p.get(i) == Some(&b'/') {
        i += 1;
    }
    if !p.get(i).is_some_and(|b| b.is_ascii_alphabetic()) {
        return false;
    }
    #[derive(PartialEq)]
    enum S {
        Name,
        Between,
        Dq,
        Sq,
    }
    let mut st = S::Name;
    while i < p.len() {
        let b = p[i];
        match st {
            S::Name | S::Between => match b {
                b'>' => return false,
                b'"' if st == S::Between && p[i - 1] == b'=' => st = S::Dq,
                b'\'' if st == S::Between && p[i - 1] == b'=' => st = S::Sq,
                _ if is_ws(b) || b == b'/' || b == b'=' => {
                    // whitespace between '=' and the value keeps "before value"
                    if st == S::Name {
                        st = S::Between;
                    }
                }
                _ => st = S::Between,
            },
            S::Dq => {
                if b == b'"' {
                    st = S::Between;
                }
            }
            S::Sq => {
                if b == b'\'' {
                    st = S::Between;
                }
            }
        }
        i += 1;
    }
    true
}

/// `p` is one unfinished tag whose name is one the tree-builder simulation must see whole.
fn whole_tag_needed(written: &[u8], p: &[u8]) -> bool {
    if !is_one_unfinished_tag(p) {
        return false;
    }
    let rest = &p[1..];
    let rest = if rest.first() == Some(&b'/') { &rest[1..] } else { rest };
    let name: Vec<u8> = rest.iter().take_while(|&&b| !is_ws(b) && b != b'/' && b != b'>').map(|b| b.to_ascii_lowercase()).collect();
    if name.is_empty() || !name[0].is_ascii_alphabetic() {
        return false;
    }
    const NEEDED: &[&[u8]] = &[b"foreignobject", b"desc", b"title", b"font", b"mi", b"mo", b"mn", b"ms", b"mtext"];
    if NEEDED.contains(&name.as_slice()) {
        return true;
    }
    let hashable = name.len() <= 12 && name.iter().all(|b| b.is_ascii_alphabetic() || (b'1'..=b'6').contains(b));
    !hashable && contains_ci(written, b"<math")
}

pub struct Fresh {
    /// fresh[k] = sink length after a fresh rewriter got input[..k] in one write (k>=1)
    len: Vec<usize>,
}

fn fresh_lengths(p: &Prepared, input: &[u8]) -> (Fresh, usize) {
    let mut len = vec![0usize; input.len() + 1];
    let mut calls = 0;
    for k in 1..=input.len() {
        let rr = run(p, &[&input[..k]], false);
        calls += 1;
        len[k] = rr.out_len_after.first().copied().unwrap_or(0);
        if !rr.all_ok() {
            len[k] = usize::MAX; // failing prefixes are not compared
        }
    }
    (Fresh { len }, calls)
}

fn check_a(p: &Prepared, input: &[u8], sched: &Sched, fresh: &Fresh) -> Option<String> {
    let chunks = sched.chunks(input);
    let rr = run(p, &chunks, false);
    if let Some(m) = rr.panicked() {
        return Some(format!("panic: {m}"));
    }
    let mut pos = 0;
    for (i, c) in chunks.iter().enumerate() {
        pos += c.len();
        if i >= rr.results.len() || !rr.results[i].is_ok() {
            break;
        }
        if pos == 0 || fresh.len[pos] == usize::MAX {
            continue;
        }
        if rr.out_len_after[i] != fresh.len[pos] {
            return Some(format!(
                "after write #{i} ({} bytes in) the sink holds {} bytes, a fresh rewriter given the same prefix in one write holds {}",
                pos, rr.out_len_after[i], fresh.len[pos]
            ));
        }
    }
    None
}

fn check_b(input: &[u8], k: usize, out_len: usize, has_selectors: bool) -> Option<String> {
    if out_len == usize::MAX {
        return None;
    }
    let written = &input[..k];
    let foreign = contains_ci(written, b"<svg") || contains_ci(written, b"<math");
    if out_len > k {
        return Some(format!("sink has {out_len} bytes after only {k} were written (no handlers)"));
    }
    let pend = &written[out_len..];
    if !r_pending(written, pend) {
        // In foreign content the tree-builder simulation needs some tags whole: the self-closing
        // flag of integration-point elements, the attributes of <font> and <annotation-xml> (the
        // latter is recognised by name only after lexing, so inside MathML every tag whose name
        // cannot be hashed is lexed). Exactly those unfinished tags may be held back.
        if foreign && whole_tag_needed(written, pend) {
            return None;
        }
        // with a selector registered (even one that never matches) the matcher needs the
        // self-closing flag of every foreign start tag: "at most the single unfinished token"
        if foreign && has_selectors && pend.get(1).is_some_and(|b| b.is_ascii_alphabetic()) && is_one_unfinished_tag(pend) {
            return None;
        }
        return Some(format!(
            "after writing {:?} the rewriter (no capturing handlers) holds back {:?} ({} bytes), which is neither an unfinished tag start nor a look-ahead",
            lossy(written), lossy(pend), pend.len()
        ));
    }
    None
}

/// (start of the last token, whether that token is text reaching the end of the prefix)
fn last_token_start(pobs: &Prepared, prefix: &[u8]) -> Option<(usize, bool, bool)> {
    let rr = run(pobs, &[prefix], true);
    if !rr.all_ok() {
        return None;
    }
    // A text lexeme longer than the decoder's 1 KiB buffer is delivered in several chunks: a chunk
    // that directly follows a (nearly) buffer-sized text chunk belongs to the same token.
    let mut best: Option<(usize, bool, bool)> = None;
    let mut prev_text: Option<(usize, usize, usize)> = None; // (token start, chunk start, chunk end)
    for e in &rr.events {
        let cand = match e {
            // script data is excluded: its escape / double-escape look-ahead is longer than a keyword
            Ev::Text { loc, ty, .. } if loc.1 > loc.0 => {
                let start = match prev_text {
                    Some((tok, cs, ce)) if ce == loc.0 && ce - cs >= 1020 => tok,
                    // (a second handler looking at the same chunk)
                    Some((tok, cs, ce)) if (cs, ce) == (loc.0, loc.1) => tok,
                    _ => loc.0,
                };
                prev_text = Some((start, loc.0, loc.1));
                Some((start, loc.1 == prefix.len() && *ty != 3, loc.1 == prefix.len() && *ty == 3))
            }
            Ev::El { loc, .. } | Ev::EndTag { loc, .. } | Ev::Comment { loc, .. } | Ev::Doctype { loc, .. } if loc.1 > loc.0 => {
                prev_text = None;
                Some((loc.0, false, false))
            }
            _ => None,
        };
        if let Some(c) = cand {
            if best.is_none_or(|b| c.0 >= b.0) {
                best = Some(c);
            }
        }
    }
    best
}

fn script_lookahead_ok(rest: &[u8]) -> bool {
    if rest[0] != b'<' {
        return false;
    }
    let r = &rest[1..];
    r.is_empty()
        || (r[0] == b'/' && r[1..].iter().all(|b| b.is_ascii_alphabetic()))
        || r == b"!"
        || r == b"!-"
        || (r.len() <= 6 && r.eq_ignore_ascii_case(&b"script"[..r.len()]))
}

fn check_c(pobs: &Prepared, input: &[u8], k: usize, out_len: usize) -> Option<String> {
    if out_len == usize::MAX {
        return None;
    }
    let prefix = &input[..k];
    let Some((start, ends_in_text, ends_in_script_text)) = last_token_start(pobs, prefix) else { return None };
    let slack = if has_text_handler(&pobs.cfg) { 3 } else { 0 };
    // Text is delivered chunk by chunk, it is never "the unfinished token": when the data so far
    // ends in text (of any text mode, CDATA included) only a partial character, the start of a
    // possible tag or a look-ahead may be held back.
    // (only where output offsets are input offsets: no malformed bytes re-encoded as U+FFFD)
    let well_formed = match std::str::from_utf8(prefix) {
        Ok(_) => true,
        Err(e) => e.error_len().is_none(),
    };
    if ends_in_text && out_len <= k && well_formed {
        let held = &prefix[out_len..];
        // a partial character (text handlers decode) may precede the tag start / look-ahead
        let lead = held.iter().take(slack).take_while(|b| **b >= 0x80).count();
        let rest = &held[lead..];
        if !rest.is_empty() && !r_pending(prefix, rest) {
            return Some(format!(
                "observers registered: the data written so far ({:?}) ends in text, but {:?} ({} bytes) is held back — more than a partial character, a possible tag start or a look-ahead",
                lossy(prefix), lossy(held), held.len()
            ));
        }
    }
    // Script data: text is delivered chunk by chunk there too; what may be held back is the start
    // of a possible end tag (its name may still grow), of a comment-like escape or of a nested
    // "<script" — never text without a '<'.
    if ends_in_script_text && out_len <= k && well_formed {
        let held = &prefix[out_len..];
        let lead = held.iter().take(slack).take_while(|b| **b >= 0x80).count();
        let rest = &held[lead..];
        if !rest.is_empty() && !script_lookahead_ok(rest) {
            return Some(format!(
                "observers registered: the data written so far ends in script text, but {:?} ({} bytes) is held back — not the start of a possible end tag, escape or nested script tag",
                lossy(&held[..held.len().min(60)]), held.len()
            ));
        }
    }
    if out_len + slack < start {
        return Some(format!(
            "observers registered: after writing {:?} only {} bytes were emitted but the last (possibly unfinished) token starts at {}",
            lossy(prefix), out_len, start
        ));
    }
    None
}

pub fn replay(case: &Value) -> Option<String> {
    let cfg: Cfg = serde_json::from_value(case["cfg"].clone()).ok()?;
    let input = unhex(case["input_hex"].as_str()?);
    let p = Prepared::new(cfg).ok()?;
    let kind = case["oracle"].as_str()?;
    let (fresh, _) = fresh_lengths(&p, &input);
    match kind {
        "A" => {
            let sched: Sched = serde_json::from_value(case["sched"].clone()).ok()?;
            check_a(&p, &input, &sched, &fresh)
        }
        "B" => {
            let k = case["k"].as_u64()? as usize;
            check_b(&input, k, fresh.len[k], !p.cfg.handlers.is_empty())
        }
        "C" => {
            let k = case["k"].as_u64()? as usize;
            check_c(&p, &input, k, fresh.len[k])
        }
        _ => None,
    }
}

#[derive(Clone, Copy, PartialEq)]
enum Kind {
    /// no capturing handler: oracle A + B
    Passive,
    /// observers capturing every token: oracle A + C
    Observing,
}

fn sweep(ctx: &Ctx, name: &str, space: Space, cfgs: &[(Prepared, Kind)], lv: Levels) {
    sweep_space(ctx, name, space, &|i, raw| {
        if raw.is_empty() {
            return;
        }
        let mut scheds = vec![];
        for (p, kind) in cfgs {
            let input = raw;
            let (fresh, calls) = fresh_lengths(p, input);
            ctx.transitions.fetch_add(calls as u64, std::sync::atomic::Ordering::Relaxed);
            ctx.evaluations.fetch_add(calls as u64, std::sync::atomic::Ordering::Relaxed);
            let report = |msg: String, oracle: &str, k: usize, s: Option<&Sched>| {
                let cfg = p.cfg.clone();
                let case = json!({"cfg": cfg, "input_hex": hex(input), "input_lossy": lossy(input), "oracle": oracle, "k": k, "sched": s});
                let c2 = case.clone();
                ctx.violation(msg, case, &|| replay(&c2));
            };
            for k in 1..=input.len() {
                let ol = fresh.len[k];
                ctx.validated(1);
                ctx.states.insert(digest(&(&input[..k], ol)));
                if ol != usize::MAX && ol < k {
                    ctx.nontrivial.insert(digest(&(&input[..k])));
                    ctx.outcomes.insert(digest(&input[ol.min(k)..k]));
                }
                let r = match kind {
                    Kind::Passive => check_b(input, k, ol, !p.cfg.handlers.is_empty()).map(|m| (m, "B")),
                    Kind::Observing => check_c(p, input, k, ol).map(|m| (m, "C")),
                };
                if *kind == Kind::Observing {
                    ctx.exec(2);
                }
                if let Some((m, o)) = r {
                    report(m, o, k, None);
                }
            }
            schedules(input.len(), lv, &mut scheds);
            for s in &scheds {
                ctx.exec(s.cuts.len() + 1);
                ctx.validated(1);
                if let Some(m) = check_a(p, input, s, &fresh) {
                    report(m, "A", 0, Some(s));
                }
            }
        }
        if i % 60_013 == 3 {
            ctx.sample(json!({"space": space.label(), "input": lossy(raw), "configs": cfgs.len()}));
        }
    });
}

/// Documents whose sizes sit just below, at and just above the implementation's thresholds.
fn scaled_sweep(ctx: &Ctx, cfgs: &[(Prepared, Kind)]) {
    let docs = scaled_docs(ctx.quick());
    let quick = ctx.quick();
    par_for(docs.len() * cfgs.len(), 1, |j| {
        if ctx.over_time() {
            return;
        }
        let (label, input) = &docs[j / cfgs.len()];
        let (p, kind) = &cfgs[j % cfgs.len()];
        let (fresh, calls) = fresh_lengths(p, input);
        ctx.transitions.fetch_add(calls as u64, std::sync::atomic::Ordering::Relaxed);
        ctx.evaluations.fetch_add(calls as u64, std::sync::atomic::Ordering::Relaxed);
        let report = |msg: String, oracle: &str, k: usize, s: Option<&Sched>| {
            let cfg = p.cfg.clone();
            let case = json!({"cfg": cfg, "document": label, "input_hex": hex(input), "input_lossy": lossy(&input[..input.len().min(100)]), "oracle": oracle, "k": k, "sched": s});
            let c2 = case.clone();
            ctx.violation(msg, case, &|| replay(&c2));
        };
        for k in 1..=input.len() {
            let ol = fresh.len[k];
            ctx.validated(1);
            if ol != usize::MAX && ol < k {
                ctx.nontrivial.insert(digest(&(j, k)));
            }
            let r = match kind {
                Kind::Passive => check_b(input, k, ol, !p.cfg.handlers.is_empty()).map(|m| (m, "B")),
                Kind::Observing => check_c(p, input, k, ol).map(|m| (m, "C")),
            };
            if let Some((m, o)) = r {
                report(m, o, k, None);
                break;
            }
        }
        for s in &scaled_scheds(input.len(), quick) {
            ctx.exec(s.cuts.len() + 1);
            ctx.validated(1);
            if let Some(m) = check_a(p, input, s, &fresh) {
                report(m, "A", 0, Some(s));
            }
        }
        ctx.states.insert(digest(&(j, &fresh.len)));
        if j % 211 == 3 {
            ctx.sample(json!({"space": "scaled documents", "document": label, "config": p.cfg.label()}));
        }
    });
    if !ctx.capped.load(std::sync::atomic::Ordering::Relaxed) {
        ctx.level_done(&format!("{} scaled documents (sizes around 12, 32, 64, 256, 1024, 2048) x {} configs x every prefix x fixed chunk sizes + cuts around the thresholds", docs.len(), cfgs.len()));
    }
}

pub fn run_check(ctx: &Ctx) -> i32 {
    let obs = observer_menu();
    let mk = |names: &[&str], kind: Kind, strict: &[bool]| -> Vec<(Prepared, Kind)> {
        prep_menu(&obs, names, strict, "UTF-8").into_iter().map(|p| (p, kind)).collect()
    };
    let mut cfgs = mk(&["none", "el(zzz)"], Kind::Passive, &[true, false]);
    cfgs.extend(mk(&["everything", "doc-all"], Kind::Observing, &[true]));
    let mut passive_only = mk(&["none"], Kind::Passive, &[true]);
    passive_only.extend(mk(&["everything"], Kind::Observing, &[true]));
    let l12 = Levels { l1: true, l2_max_len: 20, bytewise: true, empties: true };
    let l1 = Levels { l1: true, l2_max_len: 0, bytewise: true, empties: false };
    let k = F.len();
    {
        let mut sc = mk(&["none", "el(zzz)"], Kind::Passive, &[false]);
        sc.extend(mk(&["everything"], Kind::Observing, &[false]));
        scaled_sweep(ctx, &sc);
    }
    if ctx.quick() {
        sweep(ctx, "F<=2 x 6 configs x every prefix x L1,L2(len<=20),LB,LE", Space::Frags { k, max: 2 }, &cfgs, l12);
        sweep(ctx, "F<=3 x {none, everything} x every prefix x L1,LB", Space::Frags { k, max: 3 }, &passive_only, l1);
        sweep(ctx, "B16<=4 x 6 configs x every prefix x L1,L2,LB,LE", Space::Bytes { max: 4 }, &cfgs, l12);
        sweep(ctx, "18 contexts x F<=2 x {none, everything} x every prefix x L1,LB", Space::CtxFrags { k, max: 2 }, &passive_only, l1);
        sweep(ctx, "18 contexts x B16<=3 x {none, everything} x every prefix x L1,LB", Space::CtxBytes { max: 3 }, &passive_only, l1);
        sweep(ctx, "10 foreign contexts x 58 foreign tag fragments<=2 x 6 configs x every prefix x L1,LB", Space::Foreign { max: 2 }, &cfgs, l1);
    } else {
        let lall = Levels { l1: true, l2_max_len: 48, bytewise: true, empties: true };
        sweep(ctx, "F<=3 x 6 configs x every prefix x L1,L2,LB,LE", Space::Frags { k, max: 3 }, &cfgs, lall);
        sweep(ctx, "F<=4 x {none, everything} x every prefix x L1,LB", Space::Frags { k, max: 4 }, &passive_only, l1);
        sweep(ctx, "B16<=5 x 6 configs x every prefix x L1,L2,LB,LE", Space::Bytes { max: 5 }, &cfgs, lall);
        sweep(ctx, "B16<=6 x {none, everything} x every prefix x L1", Space::Bytes { max: 6 }, &passive_only, l1);
        sweep(ctx, "18 contexts x F<=3 x {none, everything} x every prefix x L1,LB", Space::CtxFrags { k, max: 3 }, &passive_only, l1);
        sweep(ctx, "18 contexts x B16<=4 x 6 configs x every prefix x L1,L2,LB", Space::CtxBytes { max: 4 }, &cfgs, lall);
        sweep(ctx, "10 foreign contexts x 58 foreign tag fragments<=3 x 6 configs x every prefix x L1,LB", Space::Foreign { max: 3 }, &cfgs, l1);
    }
    ctx.finish(
        "model_checking",
        RULE,
        &["R-pending is written from the property statement and the tokenizer's seven look-ahead keywords", "oracle C uses the implementation's own token boundaries (from a prefix+end() run) as the definition of 'the last token'"],
        true,
    )
}
