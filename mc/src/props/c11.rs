//! C11 Graceful bail-out: at any failure point no received byte is lost or duplicated.

use crate::alpha::*;
use crate::common::*;
use crate::drive::*;
use crate::explore::*;
use serde_json::{Value, json};

const RULE: &str = "every input (F<=k, context x F) x schedule (L0, every 1-cut, byte-wise) x handler set (observers, marker handlers) x a failure injected at EVERY handler invocation index 1..N and, separately, EVERY memory limit 0..M0 (M0 = first limit under which the run succeeds; parsing buffer preallocation 0 and M/2) x the flag combinations (matching flag on, off, only the other flag on), two bail-out handlers registered; oracle: reconstruction equality strip_markers(sink) ++ unwritten input == input, bail-out markers exactly once in registration order after a prefix of the fault-free output and before the raw remainder; without the matching flag nothing is flushed and bail-out handlers do not run; non-trivial = distinct (input, schedule, config, fault) whose failure left unparsed or buffered bytes to flush";

fn strip_markers(b: &[u8]) -> Vec<u8> {
    let mut out = Vec::with_capacity(b.len());
    let mut inside = false;
    for &c in b {
        match c {
            1 => inside = true,
            2 => inside = false,
            _ if !inside => out.push(c),
            _ => {}
        }
    }
    out
}

/// The two bail-out markers as they must appear in the sink: in the document's encoding.
fn bail_bytes(cfg: &Cfg) -> Vec<u8> {
    let s = format!("\x01B0{0}\x02\x01B1{0}\x02", cfg.bail_marker_suffix);
    let enc = encoding_rs::Encoding::for_label(cfg.encoding.as_bytes()).unwrap_or(encoding_rs::UTF_8);
    enc.encode(&s).0.into_owned()
}
const KNOWN_PARTIAL: &str = "decoder-held-partial-char";

fn find_sub(h: &[u8], n: &[u8]) -> Option<usize> {
    h.windows(n.len()).position(|w| w == n)
}

fn count_sub(h: &[u8], n: &[u8]) -> usize {
    h.windows(n.len()).filter(|w| *w == n).count()
}

/// The oracle for one faulty execution. `clean_out` is the fault-free output of the same
/// (config, input, schedule).
fn oracle(cfg: &Cfg, input: &[u8], chunks: &[&[u8]], rr: &RunResult, clean_out: &[u8]) -> Option<String> {
    if let Some(m) = rr.panicked() {
        return Some(format!("panic: {m}"));
    }
    let Some((fi, fr)) = rr.first_failure() else { return None };
    let kind = fr.err_kind().unwrap_or(0);
    let received: usize = chunks.iter().take((fi + 1).min(chunks.len())).map(|c| c.len()).sum();
    let in_end = fi >= chunks.len();
    let remainder = &input[received.min(input.len())..];
    let graceful = match kind {
        ERR_MEM => cfg.graceful_mem,
        ERR_HANDLER => cfg.graceful_handler,
        _ => false,
    };
    let bail_events: Vec<u16> = rr.events.iter().filter_map(|e| if let Ev::BailOut { idx, .. } = e { Some(*idx) } else { None }).collect();
    let failing_ev = rr.events.iter().rev().find(|e| !matches!(e, Ev::BailOut { .. } | Ev::OpRes { .. } | Ev::ReRead { .. }));
    let failed_in_doc_end = kind == ERR_HANDLER && matches!(failing_ev, Some(Ev::DocEnd { .. }));
    if !graceful {
        if !bail_events.is_empty() {
            return Some(format!("bail-out handlers ran ({bail_events:?}) although the flag for error kind {kind} is off"));
        }
        if count_sub(&rr.out, b"\x01B") > 0 {
            return Some("bail-out marker in the sink although the flag is off".into());
        }
        if !clean_out.starts_with(&rr.out) {
            return Some(format!(
                "flag off: sink {:?} is not a prefix of the fault-free output {:?} (something was flushed)",
                lossy(&rr.out), lossy(clean_out)
            ));
        }
        return None;
    }
    // graceful
    if failed_in_doc_end {
        // the statement leaves 0 or 1 bail-out invocations open; every input byte must be there
        if bail_events.len() > cfg.bail_out_handlers as usize {
            return Some("bail-out handlers ran more than once after a failing end handler".into());
        }
        let got = strip_markers(&rr.out);
        if got != input {
            return Some(format!("end handler failed: sink (markers stripped) {:?} != input", lossy(&got)));
        }
        return None;
    }
    let want: Vec<u16> = (0..cfg.bail_out_handlers).collect();
    if bail_events != want {
        return Some(format!("bail-out handlers invoked as {bail_events:?}, expected exactly once each in registration order {want:?}"));
    }
    // structure: P ++ BAIL ++ Q
    let bail = bail_bytes(cfg);
    let (p, q): (&[u8], &[u8]) = if cfg.bail_out_handlers == 2 {
        if count_sub(&rr.out, &bail) != 1 {
            return Some(format!("bail-out markers must appear exactly once, in order; sink = {:?}", lossy(&rr.out)));
        }
        let pos = find_sub(&rr.out, &bail).unwrap();
        (&rr.out[..pos], &rr.out[pos + bail.len()..])
    } else {
        (&rr.out[..], &[][..])
    };
    if cfg.bail_out_handlers == 2 {
        if q.contains(&1) || q.contains(&2) {
            return Some("handler output after the bail-out markers (raw flush expected)".into());
        }
        if !clean_out.starts_with(p) {
            return Some(format!(
                "output before the bail-out markers {:?} is not a prefix of the fault-free output {:?}",
                lossy(p), lossy(clean_out)
            ));
        }
    }
    if rewrites(cfg) {
        // rewriting handlers: the raw flush plus the unwritten remainder must be a suffix of
        // the input (P is already known to be a prefix of the fault-free output)
        let mut tail = strip_markers(q);
        if cfg.bail_out_handlers != 2 {
            return None;
        }
        tail.extend_from_slice(remainder);
        if !input.ends_with(&tail) {
            return Some(format!("raw flush ++ unwritten input {:?} is not a suffix of the input", lossy(&tail)));
        }
        // ... and it starts where the processed prefix ends: the output before the markers is
        // what the same writes, cut off at the byte the raw flush starts with, produce — at
        // least what they produce without end(), at most what they produce with it. (Content
        // being removed produces no output, so the documented exception is built in; bytes
        // lost *after* the removed content are not.)
        let t = input.len() - tail.len();
        let (lo, hi) = prefix_bounds(cfg, chunks, t);
        if p.len() < lo {
            if partial_char_lost_before(cfg, input, chunks, t) {
                return None; // the listed finding, decided on the observer configurations
            }
            return Some(format!(
                "graceful bail-out lost bytes: the raw flush starts at input offset {t} ({:?}), but the sink before the bail-out markers holds {} bytes ({:?}) while the same writes up to offset {t} normally produce {lo}",
                lossy(&tail), p.len(), lossy(p)
            ));
        }
        if p.len() > hi {
            return Some(format!(
                "graceful bail-out duplicated bytes: the raw flush starts at input offset {t} ({:?}), but the sink before the bail-out markers already holds {} bytes ({:?}) while the input up to offset {t} produces at most {hi}",
                lossy(&tail), p.len(), lossy(p)
            ));
        }
        return None;
    }
    let mut whole = strip_markers(&rr.out);
    whole.extend_from_slice(remainder);
    if whole != input {
        if partial_char_signature(cfg, input, chunks, &whole) {
            return Some(format!("{KNOWN_PARTIAL}: a partial multi-byte character held by the text decoder is lost: got {:?}, input {:?}", lossy(&whole), lossy(input)));
        }
        return Some(format!(
            "graceful bail-out ({}{}) lost or duplicated bytes: sink(markers stripped) ++ unwritten = {:?}, input = {:?}",
            if kind == ERR_MEM { "memory limit" } else { "handler error" },
            if in_end { ", in end()" } else { "" },
            lossy(&whole), lossy(input)
        ));
    }
    None
}

thread_local! {
    static PREFIX_CACHE: std::cell::RefCell<std::collections::HashMap<u64, (usize, usize)>> = Default::default();
}

/// Output length of the fault-free configuration for the same writes cut off at input offset
/// `t`: (before end(), after end()).
fn prefix_bounds(cfg: &Cfg, chunks: &[&[u8]], t: usize) -> (usize, usize) {
    let mut cut: Vec<&[u8]> = vec![];
    let mut pos = 0;
    for c in chunks {
        if pos >= t {
            break;
        }
        let take = c.len().min(t - pos);
        cut.push(&c[..take]);
        pos += take;
    }
    let base = Cfg { fail_at: None, mem: None, ..cfg.clone() };
    let key = digest(&(&base, &cut));
    if let Some(v) = PREFIX_CACHE.with(|c| c.borrow().get(&key).copied()) {
        return v;
    }
    let rr = run_cfg(&base, &cut);
    let v = if rr.all_ok() {
        let n = rr.out_len_after.len();
        (if n >= 2 { rr.out_len_after[n - 2] } else { 0 }, rr.out.len())
    } else {
        (0, usize::MAX)
    };
    PREFIX_CACHE.with(|c| {
        let mut c = c.borrow_mut();
        if c.len() > 200_000 {
            c.clear();
        }
        c.insert(key, v);
    });
    v
}

/// A write boundary before `t` falls strictly inside a multi-byte character and a text handler is
/// registered (the situation of the listed finding `decoder-held-partial-char`).
fn partial_char_lost_before(cfg: &Cfg, input: &[u8], chunks: &[&[u8]], t: usize) -> bool {
    if !has_text_handler(cfg) {
        return false;
    }
    let mut pos = 0;
    for c in chunks.iter().take(chunks.len().saturating_sub(1)) {
        pos += c.len();
        if pos > 0 && pos < input.len() && pos <= t && input[pos] & 0xC0 == 0x80 {
            return true;
        }
    }
    false
}

struct Job<'a> {
    base: &'a Cfg,
    input: &'a [u8],
    sched: &'a Sched,
}

fn run_cfg(cfg: &Cfg, chunks: &[&[u8]]) -> RunResult {
    let p = Prepared::new(cfg.clone()).unwrap();
    run(&p, chunks, true)
}

fn rewrites(cfg: &Cfg) -> bool {
    cfg.handlers.iter().any(|h| {
        h.ops.iter().chain(h.end_tag_ops.iter().flatten()).any(|o| matches!(o, Op::SetAttr(..) | Op::RemoveAttr(..) | Op::SetTagName(..) | Op::SetText(..) | Op::Replace(..) | Op::Remove | Op::RemoveKeepContent | Op::SetInner(..) | Op::StReplace(..) | Op::StRemove | Op::StSetName(..)))
    })
}

/// Signature of the listed finding `decoder-held-partial-char`: a text handler is registered,
/// a write boundary falls strictly inside a multi-byte UTF-8 character, and the reconstructed
/// document equals the input minus exactly that character's bytes before the boundary (they
/// sit in the text decoder when the bail-out flushes raw input).
fn partial_char_signature(cfg: &Cfg, input: &[u8], chunks: &[&[u8]], whole: &[u8]) -> bool {
    if !has_text_handler(cfg) {
        return false;
    }
    let mut pos = 0;
    for c in chunks.iter().take(chunks.len().saturating_sub(1)) {
        pos += c.len();
        if pos == 0 || pos >= input.len() || input[pos] & 0xC0 != 0x80 {
            continue;
        }
        let mut start = pos;
        while start > 0 && input[start] & 0xC0 == 0x80 {
            start -= 1;
        }
        if input[start] < 0xC0 {
            continue;
        }
        let mut expect = input[..start].to_vec();
        expect.extend_from_slice(&input[pos..]);
        if expect == whole {
            return true;
        }
    }
    false
}

fn check_fault(job: &Job<'_>, fault_cfg: &Cfg) -> Option<String> {
    let chunks = job.sched.chunks(job.input);
    let clean = run_cfg(job.base, &chunks);
    if !clean.all_ok() {
        return None; // e.g. ambiguity error: handled by `ambiguity_never_flushed`
    }
    let rr = run_cfg(fault_cfg, &chunks);
    oracle(fault_cfg, job.input, &chunks, &rr, &clean.out)
}

pub fn replay(case: &Value) -> Option<String> {
    let base: Cfg = serde_json::from_value(case["base"].clone()).ok()?;
    let fault: Cfg = serde_json::from_value(case["fault"].clone()).ok()?;
    let input = unhex(case["input_hex"].as_str()?);
    let sched: Sched = serde_json::from_value(case["sched"].clone()).ok()?;
    if case["kind"].as_str() == Some("ambiguity") {
        return ambiguity_never_flushed(&fault, &input, &sched);
    }
    if case["kind"].as_str() == Some("removal") {
        return removal_invariance(&fault, &input, &sched);
    }
    check_fault(&Job { base: &base, input: &input, sched: &sched }, &fault)
}

/// Parsing-ambiguity errors are never recovered, whatever the flags.
fn ambiguity_never_flushed(cfg: &Cfg, input: &[u8], sched: &Sched) -> Option<String> {
    let chunks = sched.chunks(input);
    let rr = run_cfg(cfg, &chunks);
    if let Some((_, r)) = rr.first_failure() {
        if r.err_kind() == Some(ERR_AMBIG) {
            if rr.events.iter().any(|e| matches!(e, Ev::BailOut { .. })) {
                return Some("bail-out handlers ran on a parsing-ambiguity error".into());
            }
            let lax = run_cfg(&Cfg { strict: false, ..cfg.clone() }, &chunks);
            if !lax.out.starts_with(&rr.out) {
                return Some(format!("ambiguity error: sink {:?} is not a prefix of the non-strict output (something was flushed)", lossy(&rr.out)));
            }
        }
    }
    None
}

fn handler_sets() -> Vec<(&'static str, Vec<HSpec>)> {
    let mut everything = observer_menu().pop().unwrap().1;
    everything.push(HSpec::obs_end_tag("*"));
    let markers = marker_menu();
    vec![
        ("observers: everything", everything),
        ("observers: el(a)+text(a)+doc-end", vec![HSpec::obs(HKind::Element, "a"), HSpec::obs(HKind::Text, "a"), HSpec::obs(HKind::DocEnd, "")]),
        ("markers: el(a)", markers[0].1.clone()),
        ("markers: text+comments", markers[1].1.clone()),
        ("markers: doc-level", markers[2].1.clone()),
        ("markers: el(*) attrs+rename+endtag", markers[5].1.clone()),
    ]
}

/// Which memory limits to try. Thorough: every value 0..=M0. Quick: every value 0..=len+8, a
/// window of +-4 around every allocation step actually observed (found by bisection of the
/// failure moment), and M0-1, M0.
#[derive(Clone, Copy, PartialEq)]
enum MemSweep {
    None,
    Windows,
    Every,
}

fn moment(rr: &RunResult) -> (usize, usize, usize) {
    (rr.results.len(), rr.out.len(), rr.events.len())
}

fn explore_input(ctx: &Ctx, sets: &[(Prepared, bool)], input: &[u8], lv: Levels, mem_sweep: MemSweep) {
    let mut scheds = vec![Sched::whole()];
    let mut more = vec![];
    schedules(input.len(), lv, &mut more);
    scheds.extend(more);
    for (base, _) in sets {
        for s in &scheds {
            let chunks = s.chunks(input);
            let clean = run(base, &chunks, true);
            ctx.exec(clean.results.len());
            if !clean.all_ok() {
                continue;
            }
            let mut try_fault = |f: Prepared, nontrivial_key: u64| {
                let rr = run(&f, &chunks, true);
                ctx.exec(rr.results.len());
                ctx.validated(1);
                ctx.states.insert(digest(&(input, &s.cuts, f.cfg.fail_at, f.cfg.mem, f.cfg.graceful_handler, f.cfg.graceful_mem, &rr.out_len_after)));
                ctx.outcomes.insert(digest(&(&rr.out, &rr.results)));
                if rr.first_failure().is_some() {
                    ctx.nontrivial.insert(nontrivial_key);
                }
                if let Some(msg) = oracle(&f.cfg, input, &chunks, &rr, &clean.out) {
                    report(ctx, &base.cfg, &f.cfg, input, s, msg);
                }
                rr
            };
            for k in 1..=clean.handler_calls {
                let key = digest(&(input, &s.cuts, k, &base.cfg.handlers));
                try_fault(base.variant(|c| { c.fail_at = Some(k); c.graceful_handler = true; }), key);
                try_fault(base.variant(|c| { c.fail_at = Some(k); c.graceful_mem = true; }), key);
                try_fault(base.variant(|c| { c.fail_at = Some(k); }), key);
            }
            if mem_sweep == MemSweep::None {
                continue;
            }
            let mut at = |m: usize| -> (bool, (usize, usize, usize)) {
                let key = digest(&(input, &s.cuts, m, 77u8, &base.cfg.handlers));
                let rr = try_fault(base.variant(|c| { c.mem = Some((m, 0)); c.graceful_mem = true; }), key);
                // a preallocated parsing buffer (spare capacity when an append fails)
                if m >= 2 {
                    let key2 = digest(&(input, &s.cuts, m, 78u8, &base.cfg.handlers));
                    try_fault(base.variant(|c| { c.mem = Some((m, m / 2)); c.graceful_mem = true; }), key2);
                }
                if !rr.all_ok() {
                    try_fault(base.variant(|c| { c.mem = Some((m, 0)); c.graceful_handler = true; }), key);
                    try_fault(base.variant(|c| { c.mem = Some((m, 0)); }), key);
                }
                (rr.all_ok(), moment(&rr))
            };
            // M0: first limit under which the run succeeds (doubling + bisection; success is
            // monotone in M — that monotonicity is C10's business and is asserted there)
            let mut hi = 16usize;
            while !at(hi).0 && hi < (1 << 20) {
                hi *= 2;
            }
            let mut lo = 0usize;
            let mut h = hi;
            while lo < h {
                let mid = (lo + h) / 2;
                if at(mid).0 { h = mid } else { lo = mid + 1 }
            }
            let m0 = lo;
            match mem_sweep {
                MemSweep::Every => {
                    for m in 0..m0 {
                        at(m);
                    }
                }
                MemSweep::Windows => {
                    let dense = (input.len() + 8).min(m0);
                    let mut prev = None;
                    let mut steps = vec![];
                    for m in 0..dense {
                        let (_, mo) = at(m);
                        prev = Some(mo);
                    }
                    // find the remaining failure-moment changes between dense and m0 by bisection
                    let mut stack = vec![(dense, m0)];
                    let mo_at = |m: usize, at: &mut dyn FnMut(usize) -> (bool, (usize, usize, usize))| at(m).1;
                    while let Some((a, b)) = stack.pop() {
                        if a >= b {
                            continue;
                        }
                        let ma = mo_at(a, &mut at);
                        let mb = mo_at(b.saturating_sub(1).max(a), &mut at);
                        if ma == mb {
                            continue;
                        }
                        if b - a <= 9 {
                            for m in a..b {
                                at(m);
                            }
                            steps.push(a);
                            continue;
                        }
                        let mid = (a + b) / 2;
                        stack.push((a, mid));
                        stack.push((mid, b));
                    }
                    let _ = (prev, steps);
                }
                MemSweep::None => {}
            }
        }
    }
}

fn report(ctx: &Ctx, base: &Cfg, fault: &Cfg, input: &[u8], s: &Sched, msg: String) {
    let case = json!({"base": base, "fault": fault, "input_hex": hex(input), "input_lossy": lossy(input), "sched": s, "kind": "fault"});
    let c2 = case.clone();
    if msg.starts_with(KNOWN_PARTIAL) {
        ctx.known_or_violation(KNOWN_PARTIAL, msg, case, &|| replay(&c2));
    } else {
        ctx.violation(msg, case, &|| replay(&c2));
    }
}

fn sweep(ctx: &Ctx, name: &str, space: Space, sets: &[(Prepared, bool)], lv: Levels, mem_sweep: MemSweep) {
    sweep_space(ctx, name, space, &|i, raw| {
        explore_input(ctx, sets, raw, lv, mem_sweep);
        if i % 5_003 == 17 {
            ctx.sample(json!({"space": space.label(), "input": lossy(raw), "handler_sets": sets.len()}));
        }
    });
}

/// Bail-out while a handler is removing content (the documented exception covers the content being
/// removed, not what follows it): with handler sets whose invocation order does not depend on
/// chunking (no text handlers), a failure at handler invocation k must leave the same
/// `sink ++ unwritten input` under every schedule as under a single write.
fn removal_invariance(fault: &Cfg, input: &[u8], sched: &Sched) -> Option<String> {
    let whole = run_cfg(fault, &[input]);
    let chunks = sched.chunks(input);
    let rr = run_cfg(fault, &chunks);
    if let Some(m) = rr.panicked().or(whole.panicked()) {
        return Some(format!("panic: {m}"));
    }
    let rest = |rr: &RunResult, chunks: &[&[u8]]| -> Vec<u8> {
        let mut v = rr.out.clone();
        if let Some((i, _)) = rr.first_failure() {
            for c in chunks.iter().skip(i + 1) {
                v.extend_from_slice(c);
            }
        }
        v
    };
    let (a, b) = (rest(&whole, &[input]), rest(&rr, &chunks));
    if whole.first_failure().is_some() != rr.first_failure().is_some() {
        return Some(format!("the injected failure is reached under one schedule only (single write: {:?}, {}: {:?})", whole.first_failure().map(|x| x.1.short()), sched.label(), rr.first_failure().map(|x| x.1.short())));
    }
    if a != b {
        return Some(format!(
            "graceful bail-out while content is being removed: sink ++ unwritten input is {:?} under {}, but {:?} for a single write (bytes after the removed content are lost or duplicated)",
            lossy(&b), sched.label(), lossy(&a)
        ));
    }
    None
}

fn removal_sweep(ctx: &Ctx, name: &str, space: Space, lv: Levels) {
    let sets: Vec<Vec<HSpec>> = vec![
        vec![HSpec { log: false, ..HSpec::with_ops(HKind::Element, "a", vec![Op::SetInner("\x01N\x02".into(), true)]) }, HSpec::obs(HKind::Element, "*"), HSpec::obs(HKind::DocComments, "")],
        vec![HSpec { log: false, ..HSpec::with_ops(HKind::Element, "a", vec![Op::Remove]) }, HSpec::obs(HKind::Element, "*"), HSpec::obs_end_tag("*")],
        vec![HSpec { log: false, ..HSpec::with_ops(HKind::Element, "a", vec![Op::Replace("\x01R\x02".into(), true), Op::After("\x01A\x02".into(), true)]) }, HSpec::obs(HKind::DocComments, ""), HSpec::obs(HKind::Element, "title")],
    ];
    let bases: Vec<Prepared> = sets.into_iter().map(|hs| Prepared::new(Cfg { bail_out_handlers: 2, strict: false, graceful_handler: true, graceful_mem: true, ..Cfg::with(hs) }).unwrap()).collect();
    sweep_space(ctx, name, space, &|i, raw| {
        let mut scheds = vec![];
        schedules(raw.len(), lv, &mut scheds);
        for base in &bases {
            let clean = run(base, &[raw], true);
            ctx.exec(clean.results.len());
            if !clean.all_ok() {
                continue;
            }
            for k in 1..=clean.handler_calls {
                let f = base.variant(|c| c.fail_at = Some(k));
                for s in &scheds {
                    ctx.exec(s.cuts.len() + 2);
                    ctx.validated(1);
                    if let Some(msg) = removal_invariance(&f.cfg, raw, s) {
                        let case = json!({"base": base.cfg, "fault": f.cfg, "input_hex": hex(raw), "input_lossy": lossy(raw), "sched": s, "kind": "removal"});
                        let c2 = case.clone();
                        ctx.violation(msg, case, &|| replay(&c2));
                    } else {
                        ctx.nontrivial.insert(digest(&(raw, k, &s.cuts, base.cfg.handlers.len())));
                    }
                }
            }
        }
        if i % 5_003 == 19 {
            ctx.sample(json!({"space": space.label(), "input": lossy(raw), "slice": "removal in progress"}));
        }
    });
}

/// A user handler on the `<meta charset>` element itself fails: the new encoding has been
/// announced by the built-in charset handler but not applied yet, so what the bail-out handlers
/// append must still be in the encoding the sink knows (the initial one).
fn meta_bail_sweep(ctx: &Ctx) {
    let docs: [&[u8]; 3] = [b"<meta charset=windows-1252>x<a>y</a>", b"t<meta http-equiv=content-type content=\"text/html; charset=koi8-r\">x", b"<meta charset=\"shift_jis\"><a>"];
    let base = Prepared::new(Cfg { adjust_charset: true, bail_out_handlers: 2, strict: false, bail_marker_suffix: "\u{e9}".into(), ..Cfg::with(vec![HSpec::obs(HKind::Element, "meta"), HSpec::obs(HKind::Element, "a")]) }).unwrap();
    for input in docs {
        let mut scheds = vec![Sched::whole()];
        let mut more = vec![];
        schedules(input.len(), Levels { l1: true, l2_max_len: 0, bytewise: true, empties: false }, &mut more);
        scheds.extend(more);
        for s in &scheds {
            let chunks = s.chunks(input);
            let clean = run(&base, &chunks, true);
            ctx.exec(clean.results.len());
            if !clean.all_ok() {
                continue;
            }
            for (gh, gm) in [(true, false), (false, true), (false, false)] {
                let f = base.variant(|c| { c.fail_at = Some(1); c.graceful_handler = gh; c.graceful_mem = gm; });
                let rr = run(&f, &chunks, true);
                ctx.exec(rr.results.len());
                ctx.validated(1);
                ctx.nontrivial.insert(digest(&(input, &s.cuts, gh, gm)));
                if let Some(msg) = oracle(&f.cfg, input, &chunks, &rr, &clean.out) {
                    report(ctx, &base.cfg, &f.cfg, input, s, msg);
                }
            }
        }
    }
    ctx.level_done("3 documents with a charset declaration x L0,L1,LB x a failing user handler on the meta element x flags: bail-out markers in the encoding the sink knows");
}

fn ambiguity_sweep(ctx: &Ctx) {
    let inputs: &[&str] = &["<select><xmp>x", "<frameset><title>y</title>", "a<select><template><style>", "<select><textarea></select><title>"];
    for inp in inputs {
        for s in [Sched::whole(), Sched { cuts: vec![3], empty_at: None }, Sched { cuts: (1..inp.len()).collect(), empty_at: None }] {
            for (gm, gh) in [(true, true), (true, false), (false, true)] {
                let mut hs = doc_all();
                hs.push(HSpec::obs(HKind::Element, "*"));
                let cfg = Cfg { graceful_mem: gm, graceful_handler: gh, bail_out_handlers: 2, strict: true, ..Cfg::with(hs) };
                ctx.exec(2);
                ctx.validated(1);
                if let Some(msg) = ambiguity_never_flushed(&cfg, inp.as_bytes(), &s) {
                    let case = json!({"base": cfg, "fault": cfg, "input_hex": hex(inp.as_bytes()), "sched": s, "kind": "ambiguity"});
                    let c2 = case.clone();
                    ctx.violation(msg, case, &|| replay(&c2));
                }
            }
        }
    }
    ctx.level_done("4 ambiguous documents x 3 schedules x 3 flag combinations: never flushed");
}

pub fn run_check(ctx: &Ctx) -> i32 {
    let sets: Vec<(Prepared, bool)> = handler_sets()
        .into_iter()
        .map(|(_, hs)| (Prepared::new(Cfg { bail_out_handlers: 2, strict: false, ..Cfg::with(hs) }).unwrap(), true))
        .collect();
    // a legacy encoding, and bail-out handlers whose appended markers contain a non-ASCII character:
    // what they append must arrive in the document's encoding
    let legacy: Vec<(Prepared, bool)> = [0usize, 2]
        .iter()
        .map(|&i| (Prepared::new(Cfg { bail_out_handlers: 2, strict: false, bail_marker_suffix: "\u{e9}".into(), ..Cfg::with(handler_sets()[i].1.clone()).enc("windows-1252") }).unwrap(), true))
        .collect();
    // handlers that remove content (the documented exception covers only the content being
    // removed): decided by the processed-prefix bounds of `oracle`
    let rm = |hs: Vec<HSpec>| (Prepared::new(Cfg { bail_out_handlers: 2, strict: false, ..Cfg::with(hs) }).unwrap(), true);
    let quiet = |h: HSpec| HSpec { log: false, ..h };
    let removing: Vec<(Prepared, bool)> = vec![
        rm(vec![quiet(HSpec::with_ops(HKind::Element, "a", vec![Op::SetInner("\x01N\x02".into(), true)])), HSpec::obs(HKind::Element, "*"), HSpec::obs(HKind::Text, "*"), HSpec::obs(HKind::Comments, "*")]),
        rm(vec![quiet(HSpec::with_ops(HKind::Element, "a", vec![Op::Remove])), HSpec::obs(HKind::DocText, ""), HSpec::obs_end_tag("*")]),
        rm(vec![quiet(HSpec::with_ops(HKind::Element, "a", vec![Op::Replace("\x01R\x02".into(), true), Op::After("\x01A\x02".into(), true)])), HSpec::obs(HKind::Element, "*")]),
    ];
    let k = F.len();
    let l1 = Levels { l1: true, l2_max_len: 0, bytewise: true, empties: false };
    let l0 = Levels { l1: false, l2_max_len: 0, bytewise: true, empties: false };
    if ctx.quick() {
        let two: Vec<(Prepared, bool)> = vec![(sets[0].0.variant(|_| {}), true), (sets[2].0.variant(|_| {}), true)];
        let l1only = Levels { l1: true, l2_max_len: 0, bytewise: false, empties: false };
        sweep(ctx, "F<=2 x 6 handler sets x L0,L1 x every handler index x flags", Space::Frags { k, max: 2 }, &sets, l1only, MemSweep::None);
        sweep(ctx, "F<=1 x 6 handler sets x L0,L1,LB x every handler index x EVERY memory limit 0..M0 x flags", Space::Frags { k, max: 1 }, &sets, l1, MemSweep::Every);
        sweep(ctx, "18 contexts x F<=1 x 6 handler sets x L0,L1,LB x every handler index x memory limits (every value to len+8, then every failure-moment step)", Space::CtxFrags { k, max: 1 }, &sets, l1, MemSweep::Windows);
        sweep(ctx, "F<=2 x 2 handler sets x L0,L1 x memory limits (every value to len+8, then every failure-moment step)", Space::Frags { k, max: 2 }, &two, l1only, MemSweep::Windows);
        sweep(ctx, "Fcore<=3 x 2 handler sets x L0,LB x every handler index x flags", Space::Frags { k: F_CORE, max: 3 }, &two, l0, MemSweep::None);
        sweep(ctx, "F<=2 x 2 handler sets in windows-1252 with a non-ASCII character inside the bail-out markers x L0,L1 x every handler index", Space::Frags { k, max: 2 }, &legacy, l1only, MemSweep::None);
        sweep(ctx, "F<=1 x 2 handler sets in windows-1252 with a non-ASCII character inside the bail-out markers x L0,L1,LB x memory limits", Space::Frags { k, max: 1 }, &legacy, l1, MemSweep::Windows);
        removal_sweep(ctx, "Fcore<=3 x 3 content-removing handler sets x a failure at every handler invocation x L1,LB: sink ++ unwritten input equals the single-write run's", Space::Frags { k: F_CORE, max: 3 }, l1);
        sweep(ctx, "Fcore<=3 x 3 content-removing handler sets (with text / element / end-tag observers inside the removed content) x L0,L1,LB x every handler index x flags: output before the markers = what the writes up to the start of the raw flush produce", Space::Frags { k: F_CORE, max: 3 }, &removing, l1, MemSweep::None);
        sweep(ctx, "F<=2 x 2 content-removing handler sets x L0,L1 x memory limits (every value to len+8, then every failure-moment step)", Space::Frags { k, max: 2 }, &removing[..2], l1only, MemSweep::Windows);
        meta_bail_sweep(ctx);
        ambiguity_sweep(ctx);
    } else {
        sweep(ctx, "F<=3 x 6 handler sets x L0,L1,LB x every handler index x flags", Space::Frags { k, max: 3 }, &sets, l1, MemSweep::None);
        sweep(ctx, "F<=2 x 6 handler sets x L0,L1,L2,LB,LE x every handler index x flags", Space::Frags { k, max: 2 }, &sets, Levels { l1: true, l2_max_len: 40, bytewise: true, empties: true }, MemSweep::None);
        sweep(ctx, "F<=2 x 6 handler sets x L0,L1,LB x every handler index x EVERY memory limit 0..M0 x flags", Space::Frags { k, max: 2 }, &sets, l1, MemSweep::Every);
        sweep(ctx, "Fcore<=3 x 6 handler sets x L0,L1,LB x handler index + every memory limit", Space::Frags { k: F_CORE, max: 3 }, &sets, l1, MemSweep::Windows);
        sweep(ctx, "18 contexts x F<=2 x 6 handler sets x L0,L1,LB x handler index + memory limit", Space::CtxFrags { k, max: 2 }, &sets, l1, MemSweep::Windows);
        sweep(ctx, "F<=3 x 2 handler sets in windows-1252 with a non-ASCII character inside the bail-out markers x L0,L1,LB x every handler index + memory limits", Space::Frags { k, max: 3 }, &legacy, l1, MemSweep::Windows);
        removal_sweep(ctx, "F<=3 x 3 content-removing handler sets x a failure at every handler invocation x L1,L2,LB: sink ++ unwritten input equals the single-write run's", Space::Frags { k, max: 3 }, Levels { l1: true, l2_max_len: 24, bytewise: true, empties: false });
        sweep(ctx, "F<=3 x 3 content-removing handler sets x L0,L1,LB x every handler index x flags: output before the markers = what the writes up to the start of the raw flush produce", Space::Frags { k, max: 3 }, &removing, l1, MemSweep::None);
        sweep(ctx, "Fcore<=3 x 3 content-removing handler sets x L0,L1,LB x handler index + every memory limit", Space::Frags { k: F_CORE, max: 3 }, &removing, l1, MemSweep::Every);
        meta_bail_sweep(ctx);
        ambiguity_sweep(ctx);
    }
    ctx.finish(
        "fault_enumeration",
        RULE,
        &[
            "documented exceptions: content being removed is allowed to be lost (it produces no output, so the processed-prefix bounds hold either way), bytes after it are not; text nodes are emitted in one chunk per write in these inputs (the multi-chunk duplicate case needs >1 KiB of text and is checked in the thorough long-text slice only)",
            "memory faults are produced by the accounting limit, not by real allocator failure",
        ],
        true,
    )
}
