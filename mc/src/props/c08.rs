//! C08 Inserted text and validated names/values cannot change markup structure.

use crate::alpha::SIGMA;
use crate::drive::*;
use crate::explore::*;
use crate::rtok::*;
use encoding_rs::Encoding;
use serde_json::{Value, json};

const RULE: &str = "every string over the 21-character alphabet Sigma ('<' '>' '&' quotes '-' '!' '/' '=' space TAB LF NUL a A and non-ASCII incl. non-BMP / unmappable) of length<=n, used as (i) Text content at 10 insertion points in Data, RCDATA and script contexts, (ii) set_attribute value, (iii) set_attribute name, (iv) set_tag_name, (v) Comment::set_text, (vi) set_attribute on a tag that spells the name twice, (vii) text-chunk before/after/replace inside style, xmp, script and CDATA, x encodings; oracle: if the setter returns Err the output equals the unedited output; otherwise the output re-tokenised by html5ever has the unedited token skeleton plus exactly the inserted text / attribute / comment text / renamed tag, the inserted bytes are the encoding_rs encoding of the escaped string, and (for '&'-free strings) the re-read value equals the input; non-trivial = distinct (sink, string) containing a markup-significant character";

const DOC: &str = "<div id=x>t</div><!--c--><title>r</title><script>s</script><p>";

#[derive(Clone, Copy, Debug, PartialEq)]
enum Sink {
    Before,
    After,
    Prepend,
    Append,
    SetInner,
    Replace,
    TitleAppend,
    ScriptPrepend,
    CommentAfter,
    DocEnd,
    AttrValue,
    AttrName,
    TagName,
    CommentText,
}

const SINKS: &[Sink] = &[
    Sink::Before, Sink::After, Sink::Prepend, Sink::Append, Sink::SetInner, Sink::Replace, Sink::TitleAppend, Sink::ScriptPrepend,
    Sink::CommentAfter, Sink::DocEnd, Sink::AttrValue, Sink::AttrName, Sink::TagName, Sink::CommentText,
];

fn cfg_for(sink: Sink, s: &str, enc: &str) -> Cfg {
    let t = |op: Op, sel: &str| HSpec::with_ops(HKind::Element, sel, vec![op]);
    let s = s.to_string();
    let h = match sink {
        Sink::Before => t(Op::Before(s, false), "div"),
        Sink::After => t(Op::After(s, false), "div"),
        Sink::Prepend => t(Op::Prepend(s, false), "div"),
        Sink::Append => t(Op::Append(s, false), "div"),
        Sink::SetInner => t(Op::SetInner(s, false), "div"),
        Sink::Replace => t(Op::Replace(s, false), "div"),
        Sink::TitleAppend => t(Op::Append(s, false), "title"),
        Sink::ScriptPrepend => t(Op::Prepend(s, false), "script"),
        Sink::CommentAfter => HSpec::with_ops(HKind::DocComments, "", vec![Op::After(s, false)]),
        Sink::DocEnd => HSpec::with_ops(HKind::DocEnd, "", vec![Op::Append(s, false)]),
        Sink::AttrValue => HSpec::with_ops(HKind::Element, "div", vec![Op::SetAttr("k".into(), "plain".into()), Op::SetAttr("k".into(), s)]),
        Sink::AttrName => t(Op::SetAttr(s, "v".into()), "div"),
        Sink::TagName => t(Op::SetTagName(s), "div"),
        Sink::CommentText => HSpec::with_ops(HKind::DocComments, "", vec![Op::SetText(s)]),
    };
    Cfg::with(vec![h]).enc(enc)
}

fn escape_text(s: &str) -> String {
    s.replace('&', "&amp;").replace('<', "&lt;").replace('>', "&gt;")
}

fn skeleton(w: &[Tok]) -> Vec<Tok> {
    w.iter().filter(|t| !matches!(t, Tok::Text(_))).cloned().collect()
}

fn all_text(w: &[Tok]) -> String {
    w.iter().filter_map(|t| if let Tok::Text(s) = t { Some(s.as_str()) } else { None }).collect()
}

/// What a character becomes after a round trip through the document encoding: some encodings
/// map distinct characters to one byte (Shift_JIS encodes U+00A5 as 0x5C, which decodes as
/// '\\'); unmappable characters travel as numeric character references and come back intact.
fn through_encoding(s: &str, enc: &'static Encoding) -> String {
    let mut out = String::new();
    let mut buf = [0u8; 4];
    for c in s.chars() {
        let cs = c.encode_utf8(&mut buf);
        let (b, _, unmappable) = enc.encode(cs);
        if unmappable {
            out.push(c);
        } else {
            out.push_str(&enc.decode_without_bom_handling(&b).0);
        }
    }
    out
}

/// html5ever maps NUL in names/values to U+FFFD and drops/replaces it in text; such strings are
/// compared structurally only.
fn exact_comparable(s: &str) -> bool {
    !s.contains('\0')
}

pub fn check(sink: Sink, s: &str, enc: &'static Encoding) -> Option<String> {
    let p = Prepared::new(cfg_for(sink, s, enc.name())).ok()?;
    let input = enc.encode(DOC).0.into_owned();
    let rr = run(&p, &[&input], true);
    if let Some(m) = rr.panicked() {
        return Some(format!("panic: {m}"));
    }
    if !rr.all_ok() {
        return Some(format!("run failed: {:?}", rr.first_failure().map(|(_, r)| r.short())));
    }
    let setter_ok = rr.events.iter().find_map(|e| if let Ev::OpRes { ok, .. } = e { Some(*ok) } else { None });
    if setter_ok == Some(false) {
        // rejected: the token must be unchanged
        if rr.out != input {
            return Some(format!("setter returned Err for {:?} but the output changed: {:?}", s, lossy(&rr.out)));
        }
        return None;
    }
    let (decoded, had_errors) = enc.decode_without_bom_handling(&rr.out);
    if had_errors {
        return Some(format!("output is not valid {}: {}", enc.name(), hex(&rr.out)));
    }
    let w0 = whatwg_tokens(DOC);
    let w1 = whatwg_tokens(&decoded);
    let sk0 = skeleton(&w0);
    let sk1 = skeleton(&w1);
    let where_ = format!("{sink:?} with {:?} in {}: output {:?}", s, enc.name(), decoded);
    // the inserted bytes are exactly the encoding of the escaped string (nothing in another encoding)
    let inserted_bytes = |escaped: &str| enc.encode(escaped).0.into_owned();
    let contains = |hay: &[u8], needle: &[u8]| needle.is_empty() || hay.windows(needle.len()).any(|w| w == needle);
    match sink {
        Sink::Before | Sink::After | Sink::Prepend | Sink::Append | Sink::SetInner | Sink::Replace | Sink::TitleAppend | Sink::ScriptPrepend | Sink::CommentAfter | Sink::DocEnd => {
            let esc = escape_text(s);
            if !contains(&rr.out, &inserted_bytes(&esc)) {
                return Some(format!("{where_}: the inserted bytes are not encode(escape(text))"));
            }
            let want_sk: Vec<Tok> = if sink == Sink::Replace {
                sk0.iter().filter(|t| !matches!(t, Tok::Start { name, .. } | Tok::End { name } if name == "div")).cloned().collect()
            } else {
                sk0.clone()
            };
            if sk1 != want_sk {
                return Some(format!("{where_}: inserted text changed the markup structure: {:?} vs {:?}", sk1, want_sk));
            }
            if exact_comparable(s) {
                // html5ever decodes character references in Data and RCDATA, not in script data
                let shown = if sink == Sink::ScriptPrepend { esc.clone() } else { through_encoding(s, enc) };
                // numeric character references for unmappable characters decode back as well
                let shown = if sink == Sink::ScriptPrepend { enc.decode_without_bom_handling(&inserted_bytes(&esc)).0.into_owned() } else { shown };
                let base = match sink {
                    Sink::Before => format!("{shown}trs"),
                    Sink::After => format!("t{shown}rs"),
                    Sink::Prepend => format!("{shown}trs"),
                    Sink::Append => format!("t{shown}rs"),
                    Sink::SetInner => format!("{shown}rs"),
                    Sink::Replace => format!("{shown}rs"),
                    Sink::TitleAppend => format!("tr{shown}s"),
                    Sink::ScriptPrepend => format!("tr{shown}s"),
                    Sink::CommentAfter => format!("t{shown}rs"),
                    Sink::DocEnd => format!("trs{shown}"),
                    _ => unreachable!(),
                };
                // LF directly after <pre>/<textarea> etc. is not involved; CR is not in Sigma
                if all_text(&w1) != base {
                    return Some(format!("{where_}: re-parsed text {:?}, expected {:?}", all_text(&w1), base));
                }
            }
        }
        Sink::AttrValue => {
            if w1.len() != w0.len() || sk1.len() != sk0.len() {
                return Some(format!("{where_}: attribute value changed the token structure"));
            }
            for (a, b) in sk1.iter().zip(sk0.iter()).skip(1) {
                if a != b {
                    return Some(format!("{where_}: attribute value changed a later token: {:?} vs {:?}", a, b));
                }
            }
            let Some(Tok::Start { name, attrs, .. }) = sk1.first() else { return Some(format!("{where_}: no start tag")) };
            if name != "div" || attrs.len() != 2 || attrs[0] != ("id".to_string(), "x".to_string()) || attrs[1].0 != "k" {
                return Some(format!("{where_}: attribute value added or changed attributes: {:?}", attrs));
            }
            if exact_comparable(s) && !s.contains('&') {
                let want = through_encoding(s, enc);
                if attrs[1].1 != want {
                    return Some(format!("{where_}: re-read attribute value {:?} != {:?}", attrs[1].1, want));
                }
            }
        }
        Sink::AttrName => {
            if w1.len() != w0.len() || sk1.len() != sk0.len() || sk1[1..] != sk0[1..] {
                return Some(format!("{where_}: attribute name changed the token structure"));
            }
            let Some(Tok::Start { name, attrs, sc }) = sk1.first() else { return Some(format!("{where_}: no start tag")) };
            let lname = through_encoding(s, enc).to_ascii_lowercase().replace('\0', "\u{fffd}");
            let want: Vec<(String, String)> = if lname == "id" { vec![("id".into(), "v".into())] } else { vec![("id".into(), "x".into()), (lname, "v".into())] };
            if name != "div" || *sc || *attrs != want {
                return Some(format!("{where_}: accepted attribute name yields attributes {:?} (self-closing {sc}), expected {:?}", attrs, want));
            }
        }
        Sink::TagName => {
            let lname = through_encoding(s, enc).to_ascii_lowercase().replace('\0', "\u{fffd}");
            let want: Vec<Tok> = sk0
                .iter()
                .map(|t| match t {
                    Tok::Start { name, attrs, sc } if name == "div" => Tok::Start { name: lname.clone(), attrs: attrs.clone(), sc: *sc },
                    Tok::End { name } if name == "div" => Tok::End { name: lname.clone() },
                    o => o.clone(),
                })
                .collect();
            if sk1 != want || all_text(&w1) != all_text(&w0) {
                return Some(format!("{where_}: accepted tag name changed the structure: {:?}", sk1));
            }
        }
        Sink::CommentText => {
            let want: Vec<Tok> = sk0.iter().map(|t| if let Tok::Comment(_) = t { Tok::Comment(through_encoding(s, enc).replace('\0', "\u{fffd}")) } else { t.clone() }).collect();
            if sk1 != want || all_text(&w1) != all_text(&w0) {
                return Some(format!("{where_}: accepted comment text changed the structure: {:?}", sk1));
            }
        }
    }
    None
}

// ---------------------------------------------------------------------------------------------
// second document: duplicate attribute names, text-chunk level insertion in raw-text contexts
// ---------------------------------------------------------------------------------------------

const DOC2: &str = "<a href=old k=1 HREF=dup>t</a><style>s</style><xmp>x</xmp><script>j</script><svg><![CDATA[c]]></svg><p>";
/// (selector of the text handler, what the context is)
const RAW_CTX: &[&str] = &["style", "xmp", "script", "svg", "a"];

/// kind 0: set_attribute("href", s) on a tag that spells href twice; kinds 1..=15: text-chunk
/// before / after / replace with the Text content type inside style, xmp, script, CDATA, data.
pub fn check2(kind: usize, s: &str, enc: &'static Encoding) -> Option<String> {
    let cfg = if kind == 0 {
        Cfg::with(vec![HSpec::with_ops(HKind::Element, "a", vec![Op::SetAttr("href".into(), s.to_string())])])
    } else {
        let ctx = RAW_CTX[(kind - 1) / 3];
        let op = match (kind - 1) % 3 {
            0 => Op::Before(s.to_string(), false),
            1 => Op::After(s.to_string(), false),
            _ => Op::Replace(s.to_string(), false),
        };
        Cfg::with(vec![HSpec { last_only: true, ..HSpec::with_ops(HKind::Text, ctx, vec![op]) }])
    }
    .enc(enc.name());
    let p = Prepared::new(cfg).ok()?;
    let input = enc.encode(DOC2).0.into_owned();
    let rr = run(&p, &[&input], true);
    if let Some(m) = rr.panicked() {
        return Some(format!("panic: {m}"));
    }
    if !rr.all_ok() {
        return Some(format!("run failed: {:?}", rr.first_failure().map(|(_, r)| r.short())));
    }
    if rr.events.iter().any(|e| matches!(e, Ev::OpRes { ok: false, .. })) {
        return if rr.out != input { Some(format!("setter returned Err for {:?} but the output changed", s)) } else { None };
    }
    let (decoded, had_errors) = enc.decode_without_bom_handling(&rr.out);
    if had_errors {
        return Some(format!("output is not valid {}: {}", enc.name(), hex(&rr.out)));
    }
    let w0 = whatwg_tokens(DOC2);
    let w1 = whatwg_tokens(&decoded);
    let (sk0, sk1) = (skeleton(&w0), skeleton(&w1));
    let where_ = format!("document 2, kind {kind} with {:?} in {}: output {:?}", s, enc.name(), decoded);
    if kind == 0 {
        if sk1.len() != sk0.len() || sk1[1..] != sk0[1..] || all_text(&w1) != all_text(&w0) {
            return Some(format!("{where_}: attribute value changed the token structure"));
        }
        let Some(Tok::Start { name, attrs, .. }) = sk1.first() else { return Some(format!("{where_}: no start tag")) };
        // the re-parsed tag: the first href is the effective one and carries the new value
        if name != "a" || attrs.len() != 2 || attrs[0].0 != "href" || attrs[1] != ("k".to_string(), "1".to_string()) {
            return Some(format!("{where_}: attributes after set_attribute on a duplicated name: {:?}", attrs));
        }
        if exact_comparable(s) && !s.contains('&') && attrs[0].1 != through_encoding(s, enc) {
            return Some(format!("{where_}: the effective (first) href is {:?}, expected the value that was set", attrs[0].1));
        }
    } else {
        if sk1 != sk0 {
            return Some(format!("{where_}: text inserted through a text chunk changed the markup structure: {:?} vs {:?}", sk1, sk0));
        }
        let esc = escape_text(s);
        let needle = enc.encode(&esc).0.into_owned();
        if !needle.is_empty() && !rr.out.windows(needle.len()).any(|w| w == needle) {
            return Some(format!("{where_}: the inserted bytes are not encode(escape(text))"));
        }
    }
    None
}

pub fn replay(case: &Value) -> Option<String> {
    if let Some(kind) = case["kind2"].as_u64() {
        return check2(kind as usize, case["string"].as_str()?, Encoding::for_label(case["encoding"].as_str()?.as_bytes())?);
    }
    let sink = SINKS[case["sink"].as_u64()? as usize];
    let s = case["string"].as_str()?;
    let enc = Encoding::for_label(case["encoding"].as_str()?.as_bytes())?;
    check(sink, s, enc)
}

pub fn run_check(ctx: &Ctx) -> i32 {
    let quick = ctx.quick();
    let encs: Vec<&'static Encoding> = if quick {
        vec![encoding_rs::UTF_8, encoding_rs::WINDOWS_1252, encoding_rs::SHIFT_JIS]
    } else {
        vec![encoding_rs::UTF_8, encoding_rs::WINDOWS_1252, encoding_rs::ISO_8859_2, encoding_rs::SHIFT_JIS, encoding_rs::EUC_JP, encoding_rs::BIG5, encoding_rs::GBK, encoding_rs::GB18030, encoding_rs::X_USER_DEFINED]
    };
    let k = SIGMA.len();
    let max = if quick { 4 } else { 5 };
    let n = crate::alpha::count_upto(k, max);
    par_for(n, 16, |i| {
        if ctx.over_time() {
            return;
        }
        let mut idx = vec![];
        crate::alpha::seq_at(i, k, &mut idx);
        let s: String = idx.iter().map(|&j| SIGMA[j]).collect();
        for (ei, enc) in encs.iter().enumerate() {
            // the longest strings are explored in UTF-8 only in the quick tier
            if quick && ei > 0 && idx.len() == max {
                continue;
            }
            for (si, sink) in SINKS.iter().enumerate() {
                ctx.exec(2);
                ctx.validated(1);
                ctx.states.insert(digest(&(si, &s, enc.name())));
                ctx.outcomes.insert(digest(&(si, s.len(), s.contains(['<', '>']))));
                if s.contains(['<', '>', '&', '"', '\'', '-', '=', '/', ' ']) {
                    ctx.nontrivial.insert(digest(&(si, &s)));
                }
                if let Some(msg) = check(*sink, &s, enc) {
                    let case = json!({"sink": si, "sink_name": format!("{sink:?}"), "string": s, "encoding": enc.name()});
                    let c2 = case.clone();
                    ctx.violation(msg, case, &|| replay(&c2));
                }
            }
        }
        if i % 1_009 == 3 {
            ctx.sample(json!({"string": s, "sinks": SINKS.len(), "encodings": encs.len()}));
        }
    });
    if !ctx.capped.load(std::sync::atomic::Ordering::Relaxed) {
        ctx.level_done(&format!("every Sigma-string of length<={max} x {} sinks x {} encodings", SINKS.len(), encs.len()));
    }
    // long strings: an escapable / non-ASCII / unmappable character placed around the encoder's
    // buffer sizes (63-byte stack buffer, 1 KiB, 4 KiB)
    {
        let sizes: &[usize] = if quick { &[61, 62, 63, 64, 1023, 1024, 4096] } else { &[30, 31, 32, 60, 61, 62, 63, 64, 65, 126, 127, 128, 1022, 1023, 1024, 1025, 4094, 4095, 4096, 4097, 8192] };
        let specials = ["<", ">", "&", "\"", "'", "\u{e9}", "\u{416}", "\u{1f600}", "</script>", "-->", "<&>\u{e9}"];
        let mut strings: Vec<String> = vec![];
        for &n in sizes {
            for sp in specials {
                strings.push(format!("{}{sp}y", "x".repeat(n)));
                strings.push(format!("{sp}{}", "x".repeat(n)));
            }
            strings.push("\u{e9}<".repeat(n / 3 + 1));
            strings.push("&".repeat(n));
        }
        par_for(strings.len(), 1, |i| {
            if ctx.over_time() {
                return;
            }
            let s = &strings[i];
            for enc in encs.iter() {
                for (si, sink) in SINKS.iter().enumerate() {
                    ctx.exec(2);
                    ctx.validated(1);
                    ctx.states.insert(digest(&(si, s, enc.name())));
                    ctx.nontrivial.insert(digest(&(si, s)));
                    if let Some(msg) = check(*sink, s, enc) {
                        let case = json!({"sink": si, "sink_name": format!("{sink:?}"), "string": s, "encoding": enc.name()});
                        let c2 = case.clone();
                        ctx.violation(msg, case, &|| replay(&c2));
                    }
                }
            }
        });
        if !ctx.capped.load(std::sync::atomic::Ordering::Relaxed) {
            ctx.level_done(&format!("{} long strings (an escapable / non-ASCII / unmappable character at offsets {:?}, runs of escapables) x {} sinks x {} encodings", strings.len(), sizes, SINKS.len(), encs.len()));
        }
    }
    let max2 = if quick { 3 } else { 4 };
    let n2 = crate::alpha::count_upto(k, max2);
    let kinds = 1 + 3 * RAW_CTX.len();
    par_for(n2, 16, |i| {
        if ctx.over_time() {
            return;
        }
        let mut idx = vec![];
        crate::alpha::seq_at(i, k, &mut idx);
        let s: String = idx.iter().map(|&j| SIGMA[j]).collect();
        for enc in &encs {
            for kind in 0..kinds {
                ctx.exec(2);
                ctx.validated(1);
                if let Some(msg) = check2(kind, &s, enc) {
                    let case = json!({"kind2": kind, "string": s, "encoding": enc.name()});
                    let c2 = case.clone();
                    ctx.violation(msg, case, &|| replay(&c2));
                }
            }
        }
    });
    if !ctx.capped.load(std::sync::atomic::Ordering::Relaxed) {
        ctx.level_done(&format!("every Sigma-string of length<={max2} x {{set_attribute on a duplicated attribute name, text-chunk before/after/replace (Text) inside style, xmp, script, CDATA and data}} x {} encodings", encs.len()));
    }
    ctx.finish(
        "model_checking",
        RULE,
        &["html5ever 0.39 re-tokenises the output (trusted WHATWG reference); strings with NUL are compared structurally only", "encoding_rs encode is the reference for inserted bytes"],
        true,
    )
}
