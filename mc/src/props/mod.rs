use crate::explore::Ctx;
use serde_json::Value;

pub mod c01;
pub mod c02;
pub mod c03;
pub mod c04;
pub mod c05;
pub mod c06;
pub mod c07;
pub mod c08;
pub mod c09;
pub mod c10;
pub mod c11;
pub mod c12;
pub mod c13;
pub mod c14;
pub mod c15;
pub mod c16;
pub mod c17;
pub mod c18;

pub struct Entry {
    pub id: &'static str,
    pub run: fn(&Ctx) -> i32,
    pub replay: fn(&Value) -> Option<String>,
}

pub static REGISTRY: &[Entry] = &[
    Entry { id: "C01", run: c01::run_check, replay: c01::replay },
    Entry { id: "C02", run: c02::run_check, replay: c02::replay },
    Entry { id: "C03", run: c03::run_check, replay: c03::replay },
    Entry { id: "C04", run: c04::run_check, replay: c04::replay },
    Entry { id: "C05", run: c05::run_check, replay: c05::replay },
    Entry { id: "C06", run: c06::run_check, replay: c06::replay },
    Entry { id: "C07", run: c07::run_check, replay: c07::replay },
    Entry { id: "C08", run: c08::run_check, replay: c08::replay },
    Entry { id: "C09", run: c09::run_check, replay: c09::replay },
    Entry { id: "C10", run: c10::run_check, replay: c10::replay },
    Entry { id: "C11", run: c11::run_check, replay: c11::replay },
    Entry { id: "C12", run: c12::run_check, replay: c12::replay },
    Entry { id: "C13", run: c13::run_check, replay: c13::replay },
    Entry { id: "C14", run: c14::run_check, replay: c14::replay },
    Entry { id: "C15", run: c15::run_check, replay: c15::replay },
    Entry { id: "C16", run: c16::run_check, replay: c16::replay },
    Entry { id: "C17", run: c17::run_check, replay: c17::replay },
    Entry { id: "C18", run: c18::run_check, replay: c18::replay },
];
