use crate::explore::Ctx;
use serde_json::Value;

pub mod c01;

pub struct Entry {
    pub id: &'static str,
    pub run: fn(&Ctx) -> i32,
    pub replay: fn(&Value) -> Option<String>,
}

pub static REGISTRY: &[Entry] = &[
    Entry { id: "C01", run: c01::run_check, replay: c01::replay },
];
