//! C13 Character-encoding fidelity in every supported encoding.

use crate::drive::*;
use crate::explore::*;
use encoding_rs::Encoding;
use lol_html::test_utils::{ASCII_COMPATIBLE_ENCODINGS, NON_ASCII_COMPATIBLE_ENCODINGS};
use serde_json::{Value, json};

const RULE: &str = "all 36 ASCII-compatible encodings x documents '<t nU=\"U\">UU</t><!--U-->' with U from a per-encoding unit menu built from encoding_rs (valid 1/2/3/4-byte characters, a character with an ASCII-range trail byte, lone lead byte, lead + invalid trail, BOM-like prefixes FF FE / FE FF / EF BB BF) x every single cut and every 2-cut in the first 24 bytes, plus 1100-character text runs (beyond the decoder's 1 KiB buffer) x cuts around the buffer boundary; oracle: every handler-visible string == encoding_rs whole-buffer decode_without_bom_handling of the token's bytes; inserted content == encoding_rs encode (numeric character references for unmappable characters); meta charset switches at most once, only for later tokens, sink notified after the meta tag's bytes and before the next token's; non-ASCII-compatible encodings refused; non-trivial = distinct (encoding, document) containing a non-ASCII unit";

fn units(enc: &'static Encoding) -> Vec<Vec<u8>> {
    let mut v: Vec<Vec<u8>> = vec![b"x".to_vec()];
    let mut by_len: std::collections::BTreeMap<usize, Vec<u8>> = Default::default();
    let mut ascii_trail: Option<Vec<u8>> = None;
    for ch in ["\u{e9}", "\u{416}", "\u{30a2}", "\u{4e2d}", "\u{20ac}", "\u{d55c}", "\u{1f600}", "\u{5f}\u{0}", "\u{a5}", "\u{3b1}", "\u{5d0}", "\u{e01}"] {
        let (b, _, unmappable) = enc.encode(ch);
        if unmappable || b.is_ascii() {
            continue;
        }
        by_len.entry(b.len()).or_insert_with(|| b.to_vec());
        if ascii_trail.is_none() && b.len() == 2 && b[1] < 0x80 {
            ascii_trail = Some(b.to_vec());
        }
    }
    // a 4-byte form where the encoding has one
    if enc == encoding_rs::GB18030 {
        by_len.insert(4, vec![0x81, 0x30, 0x81, 0x30]);
    }
    if enc == encoding_rs::SHIFT_JIS {
        ascii_trail = Some(vec![0x83, 0x41]);
    }
    let lead = by_len.get(&2).or(by_len.get(&3)).or(by_len.get(&4)).map(|b| b[0]);
    v.extend(by_len.values().cloned());
    if let Some(a) = ascii_trail {
        if !v.contains(&a) {
            v.push(a);
        }
    }
    if let Some(l) = lead {
        if !enc.is_single_byte() {
            v.push(vec![l]); // lone lead byte
            v.push(vec![l, b'!']); // lead + invalid (ASCII) trail
        }
    }
    if enc == encoding_rs::UTF_8 {
        v.push(vec![0xE2, 0x82]); // truncated 3-byte sequence
        v.push(vec![0x80]); // stray continuation byte
        v.push(vec![0xC0, 0xAF]); // overlong
    }
    v.push(vec![0xFF, 0xFE, b'A', b'B']);
    v.push(vec![0xFE, 0xFF, b'A']);
    v.push(vec![0xEF, 0xBB, 0xBF, b'z']);
    v.push(vec![0xFF]);
    v
}

struct Doc {
    bytes: Vec<u8>,
    attr_name: (usize, usize),
    attr_value: (usize, usize),
    text: (usize, usize),
    comment: (usize, usize),
    non_ascii: bool,
}

fn doc(name_unit: &[u8], value_unit: &[u8], t1: &[u8], t2: &[u8], c: &[u8]) -> Doc {
    let mut b = b"<t n".to_vec();
    let an = b.len() - 1;
    b.extend_from_slice(name_unit);
    let an_end = b.len();
    b.extend_from_slice(b"=\"");
    let av = b.len();
    b.extend_from_slice(value_unit);
    let av_end = b.len();
    b.extend_from_slice(b"\">");
    let ts = b.len();
    b.extend_from_slice(t1);
    b.extend_from_slice(t2);
    let te = b.len();
    b.extend_from_slice(b"</t><!--");
    let cs = b.len();
    b.extend_from_slice(c);
    let ce = b.len();
    b.extend_from_slice(b"-->");
    let non_ascii = !b.is_ascii();
    Doc { bytes: b, attr_name: (an, an_end), attr_value: (av, av_end), text: (ts, te), comment: (cs, ce), non_ascii }
}

fn r_enc(enc: &'static Encoding, b: &[u8]) -> String {
    enc.decode_without_bom_handling(b).0.into_owned()
}

fn observer(enc: &'static Encoding) -> Prepared {
    Prepared::new(
        Cfg::with(vec![HSpec::obs(HKind::Element, "*"), HSpec::obs(HKind::Text, "*"), HSpec::obs(HKind::DocComments, ""), HSpec::obs(HKind::DocText, "")])
            .strict(false)
            .enc(enc.name()),
    )
    .unwrap()
}

/// Units that would change how the *tokenizer* splits the document (a quote inside the value,
/// '>' / '-' sequences inside the comment) are not used in those positions.
fn safe_in_markup(u: &[u8]) -> bool {
    !u.iter().any(|b| matches!(b, b'"' | b'>' | b'<' | b'-' | b'=' | b' ' | b'/' | b'!'))
}

fn check_strings(p: &Prepared, d: &Doc, cuts: &[usize]) -> (Option<String>, usize) {
    let chunks = split(&d.bytes, cuts);
    let rr = run(p, &chunks, true);
    let calls = rr.results.len();
    if !rr.all_ok() {
        return (Some(format!("run failed: {:?}", rr.first_failure().map(|(_, r)| r.short()))), calls);
    }
    let enc = p.encoding;
    let Some(Ev::El { attrs, name, .. }) = rr.events.iter().find(|e| matches!(e, Ev::El { .. })) else {
        return (Some("no element event".into()), calls);
    };
    if name != "t" || attrs.len() != 1 {
        return (Some(format!("element seen as {name:?} with {} attributes", attrs.len())), calls);
    }
    let want_name = r_enc(enc, &d.bytes[d.attr_name.0..d.attr_name.1]).to_ascii_lowercase();
    let want_value = r_enc(enc, &d.bytes[d.attr_value.0..d.attr_value.1]);
    if attrs[0].name != want_name {
        return (Some(format!("attribute name read as {:?}, correct decoding is {:?}", attrs[0].name, want_name)), calls);
    }
    if attrs[0].value != want_value {
        return (Some(format!("attribute value read as {:?}, correct decoding is {:?}", attrs[0].value, want_value)), calls);
    }
    let want_comment = r_enc(enc, &d.bytes[d.comment.0..d.comment.1]);
    match rr.events.iter().find(|e| matches!(e, Ev::Comment { .. })) {
        Some(Ev::Comment { text, .. }) if *text == want_comment => {}
        other => return (Some(format!("comment read as {:?}, correct decoding is {:?}", other, want_comment)), calls),
    }
    let want_text = r_enc(enc, &d.bytes[d.text.0..d.text.1]);
    for reg in [1u16, 3] {
        let got: String = rr.events.iter().filter_map(|e| if let Ev::Text { reg: r, text, .. } = e { if *r == reg { Some(text.as_str()) } else { None } } else { None }).collect();
        let lasts = rr.events.iter().filter(|e| matches!(e, Ev::Text { reg: r, last: true, .. } if *r == reg)).count();
        if got != want_text {
            return (Some(format!("text (handler #{reg}) read as {:?}, correct decoding is {:?}", got, want_text)), calls);
        }
        if !want_text.is_empty() && lasts != 1 {
            return (Some(format!("handler #{reg}: {lasts} chunks flagged last_in_text_node")), calls);
        }
    }
    (None, calls)
}

fn check_insert(enc: &'static Encoding, content: &str, html: bool) -> Option<String> {
    check_insert_mode(enc, content, html, false).or_else(|| check_insert_mode(enc, content, html, true).map(|m| format!("streaming_before: {m}")))
}

/// `streaming`: the element-level insertion goes through `streaming_before` (the content is written
/// to the streaming sink in pieces, one of them split inside a character).
fn check_insert_mode(enc: &'static Encoding, content: &str, html: bool, streaming: bool) -> Option<String> {
    let p = Prepared::new(
        Cfg::with(vec![
            HSpec { log: false, ..HSpec::with_ops(HKind::Element, "t", vec![Op::Before(content.into(), html), Op::SetAttr("k".into(), content.into())]) },
            HSpec { log: false, ..HSpec::with_ops(HKind::DocEnd, "", vec![Op::Append(content.into(), html)]) },
        ])
        .enc(enc.name())
        .streaming(streaming),
    )
    .ok()?;
    let rr = run(&p, &[b"<t>x</t>"], true);
    if !rr.all_ok() {
        return Some(format!("run failed: {:?}", rr.first_failure().map(|(_, r)| r.short())));
    }
    let escaped = if html { content.to_string() } else { content.replace('&', "&amp;").replace('<', "&lt;").replace('>', "&gt;") };
    let enc_bytes = |s: &str| enc.encode(s).0.into_owned();
    let mut want = enc_bytes(&escaped);
    want.extend_from_slice(b"<t k=\"");
    want.extend_from_slice(&enc_bytes(&content.replace('"', "&quot;")));
    want.extend_from_slice(b"\">x</t>");
    want.extend_from_slice(&enc_bytes(&escaped));
    if rr.out != want {
        return Some(format!("inserted {:?} ({}): sink bytes {} != encoding_rs encode {}", content, if html { "html" } else { "text" }, hex(&rr.out), hex(&want)));
    }
    None
}

/// Content appended by a bail-out handler is encoded like any other inserted content.
fn check_bail_out_insert(enc: &'static Encoding, content: &str, html: bool) -> Option<String> {
    let p = Prepared::new(Cfg { fail_at: Some(1), graceful_handler: true, bail_out_handlers: 1, bail_out_payload: Some((content.to_string(), html)), ..Cfg::with(vec![HSpec { log: false, ..HSpec::obs(HKind::Element, "t") }]).enc(enc.name()) }).ok()?;
    let rr = run(&p, &[b"<t>x</t>"], true);
    let escaped = if html { content.to_string() } else { content.replace('&', "&amp;").replace('<', "&lt;").replace('>', "&gt;") };
    let mut want = enc.encode(&escaped).0.into_owned();
    want.extend_from_slice(b"\x01B0\x02<t>x</t>");
    if rr.out != want {
        return Some(format!("bail-out handler appended {:?} ({}): sink bytes {} != encoding_rs encode {}", content, if html { "html" } else { "text" }, hex(&rr.out), hex(&want)));
    }
    None
}

/// A handler on the `<meta charset>` element itself fails (after the built-in charset handler has
/// announced the new encoding, before it is applied): whatever the bail-out handler appends must be
/// in the encoding the sink has been told about at that moment.
fn check_bail_out_on_meta(enc0: &'static Encoding, label: &str, content: &str, cut: Option<usize>) -> Option<String> {
    let p = Prepared::new(Cfg {
        adjust_charset: true,
        fail_at: Some(1),
        graceful_handler: true,
        bail_out_handlers: 1,
        bail_out_payload: Some((content.to_string(), true)),
        ..Cfg::with(vec![HSpec { log: false, ..HSpec::obs(HKind::Element, "meta") }]).enc(enc0.name()).strict(false)
    })
    .ok()?;
    let doc = format!("<meta charset={label}>x<p>y</p>");
    let chunks: Vec<&[u8]> = match cut {
        Some(c) => vec![&doc.as_bytes()[..c], &doc.as_bytes()[c..]],
        None => vec![doc.as_bytes()],
    };
    let rr = run(&p, &chunks, true);
    if rr.first_failure().is_none() {
        return Some("the injected failure on the meta element did not happen".into());
    }
    // the encoding announced to the sink before the chunk that carries the payload
    let mut announced = enc0.name().to_string();
    let mut payload: Option<(Vec<u8>, String)> = None;
    for e in &rr.sink {
        match e {
            SinkEv::SetEncoding(n) => announced = n.clone(),
            SinkEv::Chunk(c) if payload.is_none() && !c.is_empty() && !c.starts_with(b"<") && !c.starts_with(b"\x01") => payload = Some((c.clone(), announced.clone())),
            _ => {}
        }
    }
    let Some((bytes, told)) = payload else { return Some(format!("no payload chunk in the sink: {:?}", lossy(&rr.out))) };
    let told_enc = Encoding::for_label(told.as_bytes()).unwrap_or(enc0);
    let want = told_enc.encode(content).0.into_owned();
    if !bytes.starts_with(&want) {
        return Some(format!(
            "a handler on <meta charset={label}> failed: the bail-out handler's content {:?} reached the sink as {} while the sink had been told {} (encoding_rs: {})",
            content, hex(&bytes), told, hex(&want)
        ));
    }
    None
}

/// A user handler on the declaring `<meta>` element edits the declaration (removes or overwrites
/// the charset attribute): the document's own declaration still decides, the built-in charset
/// handling looks at the element before user handlers do.
fn check_meta_user_edit(which: u8, cut: Option<usize>) -> Option<String> {
    let op = match which {
        0 => Op::RemoveAttr("charset".into()),
        1 => Op::SetAttr("charset".into(), "utf-8".into()),
        _ => Op::SetAttr("charset".into(), "shift_jis".into()),
    };
    let hs = vec![HSpec { log: false, ..HSpec::with_ops(HKind::Element, "meta", vec![op]) }, HSpec::obs(HKind::DocText, "")];
    let p = Prepared::new(Cfg { adjust_charset: true, ..Cfg::with(hs).strict(false) }).ok()?;
    let mut doc = b"A<meta charset=windows-1251>".to_vec();
    doc.extend_from_slice(&[0xC6, b'<', b'p', b'>', 0xE6]);
    let chunks: Vec<&[u8]> = match cut {
        Some(c) => vec![&doc[..c], &doc[c..]],
        None => vec![&doc],
    };
    let rr = run(&p, &chunks, true);
    if !rr.all_ok() {
        return Some(format!("run failed: {:?}", rr.first_failure().map(|(_, r)| r.short())));
    }
    let text: String = rr.events.iter().filter_map(|e| if let Ev::Text { text, .. } = e { Some(text.as_str()) } else { None }).collect();
    if text != "A\u{416}\u{436}" {
        return Some(format!("a user handler edits the charset attribute of <meta charset=windows-1251>: text read as {text:?}, the document's declaration gives \"A\u{416}\u{436}\""));
    }
    let told: Vec<&str> = rr.sink.iter().filter_map(|e| if let SinkEv::SetEncoding(n) = e { Some(n.as_str()) } else { None }).collect();
    if told.last().copied() != Some("windows-1251") {
        return Some(format!("a user handler edits the charset attribute of <meta charset=windows-1251>: sink encodings announced {told:?}, expected the last one to be windows-1251"));
    }
    None
}

/// The declaring `<meta>` sits inside content a handler is removing: the switch still happens and
/// the sink is told before any byte in the new encoding arrives.
fn check_meta_in_removed(which: u8, cut: Option<usize>) -> Option<String> {
    let op = match which {
        0 => Op::Remove,
        1 => Op::SetInner("x".into(), true),
        _ => Op::Replace("y".into(), true),
    };
    let hs = vec![HSpec { log: false, ..HSpec::with_ops(HKind::Element, "head", vec![op]) }, HSpec::obs(HKind::DocText, "")];
    let p = Prepared::new(Cfg { adjust_charset: true, ..Cfg::with(hs).strict(false) }).ok()?;
    let mut doc = b"A<head><meta charset=windows-1251></head>".to_vec();
    doc.extend_from_slice(&[0xC6, b'<', b'p', b'>', 0xE6]);
    let chunks: Vec<&[u8]> = match cut {
        Some(c) => vec![&doc[..c], &doc[c..]],
        None => vec![&doc],
    };
    let rr = run(&p, &chunks, true);
    if !rr.all_ok() {
        return Some(format!("run failed: {:?}", rr.first_failure().map(|(_, r)| r.short())));
    }
    let text: String = rr.events.iter().filter_map(|e| if let Ev::Text { text, .. } = e { Some(text.as_str()) } else { None }).collect();
    if text != "A\u{416}\u{436}" {
        return Some(format!("<meta charset=windows-1251> inside removed content: text read as {text:?}, expected \"A\u{416}\u{436}\""));
    }
    let mut told = "UTF-8".to_string();
    for e in &rr.sink {
        match e {
            SinkEv::SetEncoding(n) => told = n.clone(),
            SinkEv::Chunk(c) if c.contains(&0xC6) || c.contains(&0xE6) => {
                if told != "windows-1251" {
                    return Some(format!("<meta charset=windows-1251> inside removed content: bytes in the new encoding ({}) reach the sink while it has only been told {told}", hex(c)));
                }
            }
            _ => {}
        }
    }
    None
}

/// meta charset: at most one switch, only for later tokens, sink notified in between.
fn check_meta(enc0: &'static Encoding, label: &str, second_label: Option<&str>, cuts: &[usize], scan_mode: bool, unit: &[u8]) -> Option<String> {
    check_meta_form(enc0, label, second_label, cuts, scan_mode, unit, false)
}

/// `http_equiv`: the first declaration is written as `<meta http-equiv="Content-Type" content="text/html; charset=L">`.
fn check_meta_form(enc0: &'static Encoding, label: &str, second_label: Option<&str>, cuts: &[usize], scan_mode: bool, unit: &[u8], http_equiv: bool) -> Option<String> {
    check_meta_syntax(enc0, label, second_label, cuts, scan_mode, unit, http_equiv as u8)
}

/// `form`: how the first declaration is written. 0 `<meta charset=L>`, 1 http-equiv + content,
/// 2 upper case, 3 other attributes around a single-quoted charset, 4 self-closing syntax,
/// 5 content before http-equiv, 6 upper-case http-equiv value and no space after the semicolon.
fn check_meta_syntax(enc0: &'static Encoding, label: &str, second_label: Option<&str>, cuts: &[usize], scan_mode: bool, unit: &[u8], form: u8) -> Option<String> {
    let http_equiv = form == 1;
    let unit0: Vec<u8> = unit.to_vec();
    let labels: Vec<&str> = std::iter::once(label).chain(second_label).collect();
    // document: T0 <meta l1> T1 [<meta l2> T2]
    let mut d = b"A".to_vec();
    d.extend_from_slice(&unit0);
    #[allow(unused_mut)]
    let mut texts = vec![(0usize, d.len())];
    let mut meta_ends = vec![];
    for (i, l) in labels.iter().enumerate() {
        d.extend_from_slice(
            if i == 0 && http_equiv {
                format!("<meta http-equiv=\"Content-Type\" content=\"text/html; charset={l}\">")
            } else if i == 0 && form == 2 {
                format!("<META CHARSET=\"{l}\">")
            } else if i == 0 && form == 3 {
                format!("<meta name=x  charset='{l}' content=y>")
            } else if i == 0 && form == 4 {
                format!("<meta charset=\"{l}\"/>")
            } else if i == 0 && form == 5 {
                format!("<meta content=\"text/html; charset={l}\" http-equiv=\"Content-Type\">")
            } else if i == 0 && form == 6 {
                format!("<meta http-equiv=CONTENT-TYPE content='text/html;charset={l}'>")
            } else if i == 0 {
                format!("<meta charset={l}>")
            } else {
                format!("<meta charset=\"{l}\">")
            }
            .as_bytes(),
        );
        meta_ends.push(d.len());
        let s = d.len();
        d.push(b'B' + i as u8);
        d.extend_from_slice(&unit0);
        texts.push((s, d.len()));
    }
    // reference: the first declaration naming a supported (ASCII-compatible) encoding wins
    let mut cur = enc0;
    let mut found = false;
    let mut switch: Option<(usize, &'static Encoding)> = None;
    let mut in_effect = vec![enc0];
    for (i, l) in labels.iter().enumerate() {
        if !found {
            if let Some(e) = Encoding::for_label_no_replacement(l.as_bytes()).filter(|e| e.is_ascii_compatible()) {
                found = true;
                if e != cur {
                    cur = e;
                    switch = Some((i, e));
                }
            }
        }
        in_effect.push(cur);
    }
    // scan_mode: nothing after the meta tag is captured (the parser stays in tag-scan mode), so
    // the switch must be flushed by the meta tag itself, not by the next captured token
    let first = if scan_mode { HSpec::obs(HKind::Element, "p[id]") } else { HSpec::obs(HKind::DocText, "") };
    // after the last text: an element whose handler inserts non-ASCII content and sets a non-ASCII
    // attribute value — they must come out in the encoding in effect there
    if !scan_mode {
        d.extend_from_slice(b"<t></t>");
    }
    let mut hs = vec![first, HSpec::with_ops(HKind::DocEnd, "", vec![Op::Append("\u{416}".into(), true)])];
    if !scan_mode {
        hs.push(HSpec { log: false, ..HSpec::with_ops(HKind::Element, "t", vec![Op::Before("\u{416}".into(), true), Op::SetAttr("k".into(), "\u{416}\"".into())]) });
    }
    if http_equiv {
        // an odd number of handlers makes the driver call the settings builder in the other order
        // (adjust_charset_on_meta_tag before with_encoding)
        hs.push(HSpec::obs(HKind::Element, "zzz"));
    }
    let p = Prepared::new(Cfg { adjust_charset: true, ..Cfg::with(hs).enc(enc0.name()) }).ok()?;
    if cuts.iter().any(|c| *c >= d.len()) {
        return None;
    }
    let chunks = split(&d, cuts);
    let rr = run(&p, &chunks, true);
    if !rr.all_ok() {
        return Some("run failed".into());
    }
    if scan_mode {
        // pass-through: texts are not captured
        texts.clear();
    }
    let node = |r: (usize, usize)| -> String { rr.events.iter().filter_map(|e| if let Ev::Text { text, loc, .. } = e { if loc.0 >= r.0 && loc.1 <= r.1 { Some(text.as_str()) } else { None } } else { None }).collect() };
    for (i, t) in texts.iter().enumerate() {
        let want = r_enc(in_effect[i], &d[t.0..t.1]);
        if node(*t) != want {
            return Some(format!("text node #{i} read as {:?}, expected {:?} (decoded as {})", node(*t), want, in_effect[i].name()));
        }
    }
    let encs: Vec<(usize, &String)> = rr.sink.iter().enumerate().filter_map(|(i, e)| if let SinkEv::SetEncoding(n) = e { Some((i, n)) } else { None }).collect();
    if encs.is_empty() || encs[0].0 != 0 || encs[0].1 != enc0.name() {
        return Some("sink was not told the initial encoding first".into());
    }
    match switch {
        Some((mi, e1)) => {
            if encs.len() != 2 || encs[1].1 != e1.name() {
                return Some(format!("expected exactly one switch to {}, sink saw {:?}", e1.name(), encs));
            }
            let before: Vec<u8> = rr.sink[..encs[1].0].iter().filter_map(|e| if let SinkEv::Chunk(c) = e { Some(c.clone()) } else { None }).flatten().collect();
            // everything up to the end of the switching meta tag: text re-encoded in enc0, tags raw
            let mut want_before = vec![];
            let mut pos = 0;
            if scan_mode {
                // every sink call made after write() returned for the chunk containing the end
                // of the meta tag must already follow the notification: at every later call
                // boundary the bytes emitted before set_encoding are at most the meta tag's end
                if before.len() > meta_ends[mi] || before != d[..before.len()] {
                    return Some(format!("scan mode: sink was notified of the new encoding after {} bytes, the switching meta tag ends at {}", before.len(), meta_ends[mi]));
                }
                // … and not before the meta tag's own bytes
                if before.len() < meta_ends[mi] {
                    return Some(format!("scan mode: sink was notified of the new encoding after only {} bytes, the switching meta tag ends at {}", before.len(), meta_ends[mi]));
                }
            }
            for t in texts.iter().take(if scan_mode { 0 } else { mi + 1 }) {
                want_before.extend_from_slice(&d[pos..t.0]);
                want_before.extend_from_slice(&enc0.encode(&r_enc(enc0, &d[t.0..t.1])).0);
                pos = t.1;
            }
            want_before.extend_from_slice(&d[pos..meta_ends[mi]]);
            if !scan_mode && before != want_before {
                return Some(format!("sink was notified of the new encoding after {} bytes, expected right after the meta tag ({} bytes)", before.len(), want_before.len()));
            }
            let tail = e1.encode("\u{416}").0.into_owned();
            if !rr.out.ends_with(&tail) {
                return Some(format!("content appended at the end is not encoded in {}", e1.name()));
            }
            if !scan_mode {
                let mut want_tail = e1.encode("\u{416}").0.into_owned();
                want_tail.extend_from_slice(b"<t k=\"");
                want_tail.extend_from_slice(&e1.encode("\u{416}&quot;").0);
                want_tail.extend_from_slice(b"\"></t>");
                want_tail.extend_from_slice(&tail);
                if !rr.out.ends_with(&want_tail) {
                    return Some(format!("content inserted / attribute value set after the switch is not encoded in {}: output ends with {}", e1.name(), hex(&rr.out[rr.out.len().saturating_sub(want_tail.len() + 4)..])));
                }
            }
        }
        None => {
            if encs.len() != 1 {
                return Some(format!("no switch expected for labels {labels:?}, sink saw {:?}", encs));
            }
        }
    }
    None
}

pub fn replay(case: &Value) -> Option<String> {
    let enc = Encoding::for_label(case["encoding"].as_str()?.as_bytes())?;
    match case["kind"].as_str()? {
        "strings" => {
            let d = doc(&unhex(case["name_unit"].as_str()?), &unhex(case["value_unit"].as_str()?), &unhex(case["t1"].as_str()?), &unhex(case["t2"].as_str()?), &unhex(case["c"].as_str()?));
            let cuts: Vec<usize> = serde_json::from_value(case["cuts"].clone()).ok()?;
            check_strings(&observer(enc), &d, &cuts).0
        }
        "long" => {
            let unit = unhex(case["unit"].as_str()?);
            let cuts: Vec<usize> = serde_json::from_value(case["cuts"].clone()).ok()?;
            let d = long_doc(&unit, case["pad"].as_u64()? as usize);
            check_strings(&observer(enc), &d, &cuts).0
        }
        "long-tail" => {
            let unit = unhex(case["unit"].as_str()?);
            let cuts: Vec<usize> = serde_json::from_value(case["cuts"].clone()).ok()?;
            let d = long_tail_doc(&unit, case["n"].as_u64()? as usize);
            check_strings(&observer(enc), &d, &cuts).0
        }
        "insert" => check_insert(enc, case["content"].as_str()?, case["html"].as_bool()?),
        "bailout-insert" => check_bail_out_insert(enc, case["content"].as_str()?, case["html"].as_bool()?),
        "meta-in-removed" => check_meta_in_removed(case["which"].as_u64()? as u8, case["cut"].as_u64().map(|c| c as usize)),
        "meta-user-edit" => check_meta_user_edit(case["which"].as_u64()? as u8, case["cut"].as_u64().map(|c| c as usize)),
        "bailout-on-meta" => check_bail_out_on_meta(enc, case["label"].as_str()?, case["content"].as_str()?, case["cut"].as_u64().map(|c| c as usize)),
        "meta" => {
            let cuts: Vec<usize> = serde_json::from_value(case["cuts"].clone()).ok()?;
            let unit = case["unit"].as_str().map(unhex).unwrap_or_else(|| vec![0xE9]);
            let form = case["form"].as_u64().map(|f| f as u8).unwrap_or(case["http_equiv"].as_bool().unwrap_or(false) as u8);
            check_meta_syntax(enc, case["label"].as_str()?, case["label2"].as_str(), &cuts, case["scan_mode"].as_bool().unwrap_or(false), &unit, form)
        }
        _ => None,
    }
}

fn long_doc(unit: &[u8], pad: usize) -> Doc {
    // text longer than the decoder's internal buffer: `pad` ASCII bytes, then 1100 units
    let mut t = vec![b'p'; pad];
    for _ in 0..1100 {
        t.extend_from_slice(unit);
    }
    doc(b"", b"v", &t, b"", b"c")
}

fn long_tail_doc(unit: &[u8], n: usize) -> Doc {
    // two ASCII bytes, one unit, then an ASCII run as long as the decoder's internal buffer: the
    // piece after a cut inside the unit is (nearly) all ASCII
    let mut t = b"ab".to_vec();
    t.extend_from_slice(unit);
    t.extend(std::iter::repeat(b'q').take(n));
    doc(b"", b"v", &t, b"", b"c")
}

pub fn run_check(ctx: &Ctx) -> i32 {
    let quick = ctx.quick();
    let encs: Vec<&'static Encoding> = ASCII_COMPATIBLE_ENCODINGS.to_vec();
    // (d) refusal
    for e in NON_ASCII_COMPATIBLE_ENCODINGS.iter() {
        ctx.exec(1);
        if lol_html::AsciiCompatibleEncoding::new(e).is_some() {
            ctx.violation(format!("non-ASCII-compatible encoding {} accepted", e.name()), json!({"kind": "refuse", "encoding": e.name()}), &|| Some(format!("non-ASCII-compatible encoding {} accepted", e.name())));
        }
    }
    for e in &encs {
        if lol_html::AsciiCompatibleEncoding::new(e).is_none() {
            ctx.violation(format!("ASCII-compatible encoding {} refused", e.name()), json!({"kind": "refuse", "encoding": e.name()}), &|| Some(format!("ASCII-compatible encoding {} refused", e.name())));
        }
    }
    // (a) strings
    par_for(encs.len(), 1, |ei| {
        let enc = encs[ei];
        let p = observer(enc);
        let us = units(enc);
        let safe: Vec<&Vec<u8>> = us.iter().filter(|u| safe_in_markup(u)).collect();
        // thorough: the first text position holds every PAIR of units (unit triples in the text)
        let empty: Vec<u8> = vec![];
        let thirds: Vec<&Vec<u8>> = if quick { vec![&empty] } else { std::iter::once(&empty).chain(us.iter()).collect() };
        for (i1, t1a) in us.iter().enumerate() {
          for t3 in &thirds {
            let t1 = &[t1a.as_slice(), t3.as_slice()].concat();
            for (i2, t2) in us.iter().enumerate() {
                // attribute / comment units rotate through the safe menu
                let nu: &[u8] = if safe[i1 % safe.len()].iter().all(|b| *b != 0xFF && *b != 0xFE) { safe[i1 % safe.len()] } else { b"" };
                let vu = safe[(i1 + i2) % safe.len()];
                let cu = safe[(i2 + 1) % safe.len()];
                let d = doc(nu, vu, t1, t2, cu);
                let n = d.bytes.len();
                let mut schedules: Vec<Vec<usize>> = vec![vec![]];
                schedules.extend((1..n).map(|c| vec![c]));
                let lim = n.min(if quick { 22 } else { 40 });
                for a in 1..lim {
                    for b in a + 1..lim {
                        schedules.push(vec![a, b]);
                    }
                }
                schedules.push((1..n).collect());
                for cuts in &schedules {
                    if ctx.over_time() {
                        return;
                    }
                    let (m, calls) = check_strings(&p, &d, cuts);
                    ctx.exec(calls);
                    ctx.validated(1);
                    ctx.states.insert(digest(&(enc.name(), &d.bytes, cuts)));
                    if let Some(msg) = m {
                        let case = json!({"kind": "strings", "encoding": enc.name(), "name_unit": hex(nu), "value_unit": hex(vu), "t1": hex(t1), "t2": hex(t2), "c": hex(cu), "cuts": cuts, "doc_lossy": lossy(&d.bytes)});
                        let c2 = case.clone();
                        ctx.violation(msg, case, &|| replay(&c2));
                    }
                }
                if d.non_ascii {
                    ctx.nontrivial.insert(digest(&(enc.name(), &d.bytes)));
                }
                ctx.outcomes.insert(digest(&(enc.name(), r_enc(enc, &d.bytes))));
            }
          }
        }
        // every safe unit in every markup position at once (name, value, comment) with a fixed text
        for u in &safe {
            let nu: &[u8] = if u.iter().all(|b| *b != 0xFF && *b != 0xFE) { u } else { b"" };
            for t in [&b"x"[..], u.as_slice()] {
                let d = doc(nu, u, t, u, u);
                let n = d.bytes.len();
                let mut schedules: Vec<Vec<usize>> = (1..n).map(|c| vec![c]).collect();
                for a in 1..n {
                    for b in a + 1..n.min(a + 6) {
                        schedules.push(vec![a, b]);
                    }
                }
                for cuts in &schedules {
                    let (m, calls) = check_strings(&p, &d, cuts);
                    ctx.exec(calls);
                    ctx.validated(1);
                    ctx.states.insert(digest(&(enc.name(), &d.bytes, cuts)));
                    if let Some(msg) = m {
                        let case = json!({"kind": "strings", "encoding": enc.name(), "name_unit": hex(nu), "value_unit": hex(u), "t1": hex(t), "t2": hex(u), "c": hex(u), "cuts": cuts, "doc_lossy": lossy(&d.bytes)});
                        let c2 = case.clone();
                        ctx.violation(msg, case, &|| replay(&c2));
                    }
                }
            }
        }
        ctx.sample(json!({"encoding": enc.name(), "units": us.iter().map(|u| hex(u)).collect::<Vec<_>>()}));
    });
    ctx.level_done(if quick { "(a) 36 encodings x unit pairs x every 1-cut, 2-cuts in the first bytes, byte-wise; every unit in name+value+comment position x every 1-cut and close 2-cuts" } else { "(a) 36 encodings x unit TRIPLES (pair in the first text position) x every 1-cut, every 2-cut in the first 40 bytes, byte-wise; every unit in name+value+comment position x every 1-cut and close 2-cuts" });
    // long text
    par_for(encs.len(), 1, |ei| {
        let enc = encs[ei];
        let p = observer(enc);
        let us = units(enc);
        for u in us.iter().filter(|u| u.len() >= 2 && u.len() <= 4 && !u.contains(&0xFF) && !u.contains(&0xFE)).take(if quick { 2 } else { 4 }) {
            for pad in [0usize, 1, 2, 3] {
                let d = long_doc(u, pad);
                let base = d.text.0;
                let mut cutsets: Vec<Vec<usize>> = vec![vec![]];
                for c in 1015..1035 {
                    cutsets.push(vec![base + c]);
                }
                for c in [5usize, 500, 2040, 2049, 3000] {
                    if base + c < d.bytes.len() {
                        cutsets.push(vec![base + c]);
                    }
                }
                cutsets.push(vec![base + 1023, base + 1025]);
                cutsets.push((1..d.bytes.len()).step_by(7).collect());
                for cuts in &cutsets {
                    let (m, calls) = check_strings(&p, &d, cuts);
                    ctx.exec(calls);
                    ctx.validated(1);
                    if let Some(msg) = m {
                        let case = json!({"kind": "long", "encoding": enc.name(), "unit": hex(u), "pad": pad, "cuts": cuts});
                        let c2 = case.clone();
                        ctx.violation(msg, case, &|| replay(&c2));
                    }
                }
            }
        }
    });
    ctx.level_done("(a') 1100-unit text runs x 4 paddings x cuts around the 1 KiB decoder buffer boundary");
    par_for(encs.len(), 1, |ei| {
        let enc = encs[ei];
        let p = observer(enc);
        let us = units(enc);
        for u in us.iter().filter(|u| u.len() >= 2 && u.len() <= 4 && !u.contains(&0xFF) && !u.contains(&0xFE)).take(if quick { 4 } else { 12 }) {
            for n in [1000usize, 1023, 1024, 1025, 1100, 2100] {
                let d = long_tail_doc(u, n);
                let base = d.text.0;
                let mut cutsets: Vec<Vec<usize>> = vec![vec![]];
                for i in 1..u.len() {
                    cutsets.push(vec![base + 2 + i]);
                    cutsets.push(vec![base + 1, base + 2 + i]);
                    if base + 2 + u.len() + 1024 < d.bytes.len() {
                        cutsets.push(vec![base + 2 + i, base + 2 + u.len() + 1024]);
                    }
                }
                for cuts in &cutsets {
                    let (m, calls) = check_strings(&p, &d, cuts);
                    ctx.exec(calls);
                    ctx.validated(1);
                    if let Some(msg) = m {
                        let case = json!({"kind": "long-tail", "encoding": enc.name(), "unit": hex(u), "n": n, "cuts": cuts});
                        let c2 = case.clone();
                        ctx.violation(msg, case, &|| replay(&c2));
                    }
                }
            }
        }
    });
    ctx.level_done("(a'') a multi-byte unit cut at every inner byte, followed by an ASCII run of 1000..2100 bytes (the piece after the cut is as long as the decoder's buffer)");
    // (b) inserted content
    let contents = ["\u{e9}", "\u{20ac}", "\u{1f600}", "\u{30a2}x", "a<b>&\"c", "\u{fffd}", "\u{416}\u{1f600}\u{e9}"];
    for enc in &encs {
        for c in contents {
            for html in [true, false] {
                ctx.exec(2);
                ctx.validated(1);
                if let Some(msg) = check_insert(enc, c, html) {
                    let case = json!({"kind": "insert", "encoding": enc.name(), "content": c, "html": html});
                    let c2 = case.clone();
                    ctx.violation(msg, case, &|| replay(&c2));
                }
                ctx.exec(1);
                if let Some(msg) = check_bail_out_insert(enc, c, html) {
                    let case = json!({"kind": "bailout-insert", "encoding": enc.name(), "content": c, "html": html});
                    let c2 = case.clone();
                    ctx.violation(msg, case, &|| replay(&c2));
                }
            }
        }
    }
    ctx.level_done("(b) 7 contents x {html,text} x {element before / set_attribute / document-end append, streaming_before, bail-out handler append} x 36 encodings: inserted bytes == encoding_rs encode (NCRs for unmappable)");
    // (b') a failing handler on the meta element itself
    for enc0 in [encoding_rs::UTF_8, encoding_rs::WINDOWS_1252, encoding_rs::KOI8_R, encoding_rs::SHIFT_JIS] {
        for l in ["windows-1251", "utf-8", "koi8-r", "shift_jis", "latin1", "gbk", "UTF-16", "bogus-label"] {
            for c in ["\u{416}", "\u{e9}\u{20ac}", "\u{30a2}"] {
                for cut in [None, Some(5usize), Some(14)] {
                    ctx.exec(2);
                    ctx.validated(1);
                    if let Some(msg) = check_bail_out_on_meta(enc0, l, c, cut) {
                        let case = json!({"kind": "bailout-on-meta", "encoding": enc0.name(), "label": l, "content": c, "cut": cut});
                        let c2 = case.clone();
                        ctx.violation(msg, case, &|| replay(&c2));
                    }
                }
            }
        }
    }
    for which in 0u8..3 {
        for cut in std::iter::once(None).chain((1..32).map(Some)) {
            ctx.exec(2);
            ctx.validated(1);
            if let Some(msg) = check_meta_user_edit(which, cut) {
                let case = json!({"kind": "meta-user-edit", "encoding": "UTF-8", "which": which, "cut": cut});
                let c2 = case.clone();
                ctx.violation(msg, case, &|| replay(&c2));
            }
        }
    }
    for which in 0u8..3 {
        for cut in std::iter::once(None).chain((1..45).map(Some)) {
            ctx.exec(2);
            ctx.validated(1);
            if let Some(msg) = check_meta_in_removed(which, cut) {
                let case = json!({"kind": "meta-in-removed", "encoding": "UTF-8", "which": which, "cut": cut});
                let c2 = case.clone();
                ctx.violation(msg, case, &|| replay(&c2));
            }
        }
    }
    ctx.level_done("(b3) the declaring meta element inside content being removed / replaced x every cut: the switch happens, the sink is told before bytes in the new encoding arrive");
    ctx.level_done("(b'') a user handler removes / overwrites the charset attribute of the declaring meta element x every cut: the document's declaration still decides");
    ctx.level_done("(b') a handler on <meta charset=L> fails (4 initial encodings x 8 labels x 3 contents x 3 schedules): the bail-out handler's content arrives in the encoding the sink has been told");
    // (c) meta charset
    let labels = ["windows-1251", "utf-8", "UTF-16", "shift_jis", "latin1", "bogus-label", "koi8-r", "utf-16be", "iso-2022-jp", "replacement"];
    for enc0 in [encoding_rs::UTF_8, encoding_rs::WINDOWS_1252, encoding_rs::KOI8_R] {
        for l in labels {
            for l2 in [None, Some("windows-1251"), Some("gbk")] {
                // the non-ASCII unit of every text node: a byte that is malformed UTF-8, and byte
                // pairs that are well-formed in UTF-8 AND in the legacy encodings (a decoder that
                // keeps reading UTF-8 after the switch gives a different string)
                for unit in [&[0xE9u8][..], &[0xC3, 0xA9], &[0xDF, 0xAB], &[0x83, 0x41]] {
                    for http_equiv in [false, true] {
                        let doc_len = 7 + 2 * unit.len() + 4 + format!("<meta charset={l}>").len() + if http_equiv { 48 } else { 0 } + l2.map(|x: &str| format!("<meta charset=\"{x}\">").len() + 1 + unit.len()).unwrap_or(0);
                        let mut cutsets: Vec<Vec<usize>> = vec![vec![]];
                        cutsets.extend((1..doc_len).map(|c| vec![c]));
                        for cuts in cutsets {
                            ctx.exec(cuts.len() + 2);
                            ctx.validated(1);
                            for scan_mode in [false, true] {
                                if let Some(msg) = check_meta_form(enc0, l, l2, &cuts, scan_mode, unit, http_equiv) {
                                    let case = json!({"kind": "meta", "encoding": enc0.name(), "label": l, "label2": l2, "cuts": cuts, "scan_mode": scan_mode, "unit": hex(unit), "http_equiv": http_equiv});
                                    let c2 = case.clone();
                                    ctx.violation(msg, case, &|| replay(&c2));
                                }
                            }
                        }
                    }
                }
            }
        }
    }
    ctx.level_done("(c) 3 initial encodings x 10 meta charset labels (incl. non-ASCII-compatible ones, which must be ignored) x {charset attribute, http-equiv content} x {single, followed by a second declaration} x {text captured, tag-scan mode} x 4 non-ASCII units (malformed in UTF-8 / well-formed in UTF-8 and in the legacy encodings) x every cut");
    // (c') other spellings of the declaration, label aliases
    for enc0 in [encoding_rs::UTF_8, encoding_rs::WINDOWS_1252] {
        for l in ["windows-1251", "shift_jis", "x-sjis", "utf8", "l1", "UTF-16", "bogus-label", "KOI8-R"] {
            for unit in [&[0xE9u8][..], &[0xC3, 0xA9]] {
                for form in 2u8..=6 {
                    let doc_len = 7 + 2 * unit.len() + 70 + l.len();
                    let mut cutsets: Vec<Vec<usize>> = vec![vec![]];
                    cutsets.extend((1..doc_len).map(|c| vec![c]));
                    for cuts in cutsets {
                        ctx.exec(cuts.len() + 2);
                        ctx.validated(1);
                        for scan_mode in [false, true] {
                            if let Some(msg) = check_meta_syntax(enc0, l, None, &cuts, scan_mode, unit, form) {
                                let case = json!({"kind": "meta", "encoding": enc0.name(), "label": l, "label2": null, "cuts": cuts, "scan_mode": scan_mode, "unit": hex(unit), "form": form});
                                let c2 = case.clone();
                                ctx.violation(msg, case, &|| replay(&c2));
                            }
                        }
                    }
                }
            }
        }
    }
    ctx.level_done("(c') 5 further spellings of the declaration (upper case, other attributes around it, self-closing, content before http-equiv, upper-case http-equiv value without a space) x 8 labels (aliases x-sjis, utf8, l1) x 2 initial encodings x 2 units x every cut x {text captured, tag-scan mode}");
    ctx.finish(
        "model_checking",
        RULE,
        &["encoding_rs whole-buffer decode_without_bom_handling / encode is the reference (R-enc)", "units that would change tokenisation (quotes, '>', '-') are not placed in attribute values or comments"],
        true,
    )
}
