//! C16 Element and attribute read API reflects the start tag exactly.

use crate::docgen::{Ns, VOID};
use crate::drive::*;
use crate::explore::*;
use crate::rattr::*;
use crate::rtok::*;
use serde_json::{Value, json};

const RULE: &str = "every start tag '<T' + sequence of <=n pieces from {space, a, B, =, \"v\", 'v', v, /, \", ', <, e-acute} + '>' with T in {a, A, br, input, x-long-custom-element} (and, with <=2 pieces, 45 further names: every void element of the parser's list, case variants, near misses, ordinary names), in HTML, SVG and MathML context (also inside integration points and after a closed nested svg/math root) x encodings {UTF-8, windows-1252, Shift_JIS (with a character whose trail byte is an ASCII capital)} x {single write, every cut inside the tag}; oracle: tag_name / preserve-case name / attributes() (order, names, raw values, valueless = \"\") / get_attribute+has_attribute (ASCII case-insensitive, first duplicate) / is_self_closing / can_have_content / namespace_uri == R-attr (WHATWG attribute states) + void list + context, and == html5ever's tag token where defined; then every single set_attribute / remove_attribute / set_tag_name followed by a re-read; non-trivial = distinct tags with >=1 attribute";

const PIECES: &[&str] = &[" ", "a", "B", "=", "\"v\"", "'v'", "v", "/", "\"", "'", "<", "\u{e9}"];
/// The first DEEP_NAMES names get every piece sequence up to the bound; the others (every void
/// element of the parser's list, case variants, near misses and ordinary names) sequences <= 2.
const NAMES: &[&str] = &[
    "a", "A", "br", "x-long-custom-element", "input", // deep
    "area", "base", "basefont", "bgsound", "col", "embed", "hr", "img", "keygen", "link", "meta", "param", "source", "track", "wbr",
    "AREA", "Br", "KEYGEN", "Param", "bgSound", "frame", "image", "menuitem", "command", "div", "span", "li", "p", "table", "option",
    "basefon", "bgsounds", "sources", "tracks", "wb", "col1", "params", "keygens", "hr1", "imgs", "metas", "links", "embeds", "areas", "bases",
    // integration-point element names: in svg / math context the element ITSELF is foreign
    "desc", "foreignObject", "mi", "mtext", "font",
    // names with bytes outside [A-Za-z0-9]: control bytes that a careless name hash could fold onto
    // digits (h\x12 is not h2, a breakout tag), other punctuation
    "h\u{12}", "h\u{11}x", "a\u{16}", "h2x", "h7", "b\u{1}", "p\u{10}", "br!", "em_", "i:x",
];
const DEEP_NAMES: usize = 5;
const CONTEXTS: &[(&str, &str, Ns)] = &[
    ("", "", Ns::Html),
    ("<svg>", "</svg>", Ns::Svg),
    ("<math>", "</math>", Ns::MathMl),
    ("<svg><desc>", "</desc></svg>", Ns::Html),
    // after a nested root of the same namespace has been closed
    ("<svg><svg><g/></svg>", "</svg>", Ns::Svg),
    ("<math><math><mrow/></math>", "</math>", Ns::MathMl),
    ("<math><mi>", "</mi></math>", Ns::Html),
    ("<svg><desc></desc>", "</svg>", Ns::Svg),
];
const LOOKUPS: &[&str] = &["a", "A", "b", "v", "\u{e9}", "zz"];

fn decode(enc: &'static encoding_rs::Encoding, b: &[u8]) -> String {
    enc.decode_without_bom_handling(b).0.into_owned()
}

fn base_cfg(enc: &str, ops: Vec<Op>) -> Cfg {
    Cfg::with(vec![HSpec::with_ops(HKind::Element, "*", ops)]).strict(false).enc(enc)
}

struct Expect {
    name: String,
    name_pc: String,
    attrs: Vec<(String, String, String)>, // lower name, exact name, value
    self_closing: bool,
    can_have_content: bool,
    ns: &'static str,
}

fn expectation(tag: &[u8], ns: Ns, enc: &'static encoding_rs::Encoding) -> Option<Expect> {
    let rt = parse_start_tag(tag)?;
    if rt.end != tag.len() {
        return None;
    }
    let name_pc = decode(enc, &tag[rt.name.0..rt.name.1]);
    let name = name_pc.to_ascii_lowercase();
    let attrs = rt
        .attrs
        .iter()
        .map(|a| {
            let n = decode(enc, &tag[a.name.0..a.name.1]);
            (n.to_ascii_lowercase(), n, decode(enc, &tag[a.value.0..a.value.1]))
        })
        .collect();
    let can_have_content = if ns == Ns::Html { !VOID.contains(&name.as_str()) } else { !rt.self_closing };
    Some(Expect { name, name_pc, attrs, self_closing: rt.self_closing, can_have_content, ns: ns.uri() })
}

/// The non-ASCII piece / lookup name per encoding: in Shift_JIS a character whose second
/// byte is an ASCII upper-case letter (U+30A2 = 83 41).
fn local(s: &str, enc: &'static encoding_rs::Encoding) -> String {
    if enc == encoding_rs::SHIFT_JIS { s.replace('\u{e9}', "\u{30a2}") } else { s.to_string() }
}

fn lookup_ops(enc: &'static encoding_rs::Encoding) -> Vec<Op> {
    LOOKUPS.iter().map(|n| Op::GetAttr(local(n, enc))).collect()
}

/// Check the read API for one tag in one context under one schedule.
fn check_read(p: &Prepared, doc: &[u8], tag_start: usize, tag_len: usize, ns: Ns, cut: Option<usize>) -> (Option<String>, usize, bool) {
    let tag = &doc[tag_start..tag_start + tag_len];
    let Some(mut exp) = expectation(tag, ns, p.encoding) else { return (None, 0, false) };
    // with enable_esi_tags the two content-less ESI elements are void as well
    // (ESI is an XML vocabulary: the names are matched case-sensitively)
    if p.cfg.esi && ns == Ns::Html && (exp.name_pc == "esi:include" || exp.name_pc == "esi:comment") {
        exp.can_have_content = false;
    }
    let chunks: Vec<&[u8]> = match cut {
        Some(c) => vec![&doc[..c], &doc[c..]],
        None => vec![doc],
    };
    let rr = run(p, &chunks, true);
    let calls = rr.results.len();
    if !rr.all_ok() {
        return (Some(format!("run failed: {:?}", rr.first_failure().map(|(_, r)| r.short()))), calls, true);
    }
    // the element event for our tag
    let mut it = rr.events.iter().enumerate().filter(|(_, e)| matches!(e, Ev::El { loc, .. } if loc.0 == tag_start));
    let Some((ei, Ev::El { name, name_pc, attrs, ns: got_ns, self_closing, can_have_content, loc, .. })) = it.next() else {
        return (Some(format!("no element event for the tag {:?}", lossy(tag))), calls, true);
    };
    let ctxt = format!("tag {:?}{}", lossy(tag), cut.map(|c| format!(" cut at {c}")).unwrap_or_default());
    if loc.1 != tag_start + tag_len {
        return (Some(format!("{ctxt}: element range ends at {} instead of {}", loc.1, tag_start + tag_len)), calls, true);
    }
    if *name != exp.name || *name_pc != exp.name_pc {
        return (Some(format!("{ctxt}: tag_name {:?}/{:?}, expected {:?}/{:?}", name, name_pc, exp.name, exp.name_pc)), calls, true);
    }
    let got: Vec<(String, String, String)> = attrs.iter().map(|a| (a.name.clone(), a.name_pc.clone(), a.value.clone())).collect();
    if got != exp.attrs {
        return (Some(format!("{ctxt}: attributes() = {:?}, expected {:?}", got, exp.attrs)), calls, true);
    }
    if *self_closing != exp.self_closing {
        return (Some(format!("{ctxt}: is_self_closing = {self_closing}, syntax says {}", exp.self_closing)), calls, true);
    }
    if *can_have_content != exp.can_have_content {
        return (Some(format!("{ctxt}: can_have_content = {can_have_content}, expected {}", exp.can_have_content)), calls, true);
    }
    if got_ns != exp.ns {
        return (Some(format!("{ctxt}: namespace_uri = {got_ns}, expected {}", exp.ns)), calls, true);
    }
    // lookups: OpRes(has) + ReRead("get:<n>", [(n, value)]) pairs follow the El event
    let mut k = ei + 1;
    for n in LOOKUPS {
        let n = &local(n, p.encoding);
        let want = exp.attrs.iter().find(|(l, _, _)| *l == n.to_ascii_lowercase()).map(|(_, _, v)| v.clone());
        let (Some(Ev::OpRes { ok: has, .. }), Some(Ev::ReRead { attrs: got, .. })) = (rr.events.get(k), rr.events.get(k + 1)) else {
            return (Some(format!("{ctxt}: lookup log missing for {n:?}")), calls, true);
        };
        k += 2;
        let gotv = got.first().map(|(_, v)| v.clone());
        if *has != want.is_some() || gotv != want {
            return (Some(format!("{ctxt}: has_attribute({n:?}) = {has}, get_attribute = {:?}; expected {:?} (ASCII case-insensitive, first duplicate)", gotv, want)), calls, true);
        }
    }
    (None, calls, !exp.attrs.is_empty())
}

/// html5ever agreement on the tag token (UTF-8, HTML context, names the tokenizer keeps).
fn check_h5(doc: &str, tag: &[u8], exp: &Expect) -> Option<String> {
    let w = whatwg_tokens(doc);
    let Some(Tok::Start { name, attrs, sc }) = w.iter().find(|t| matches!(t, Tok::Start { .. })) else { return None };
    let mine = dedup_attrs(exp.attrs.iter().map(|(l, _, v)| (l.clone(), v.clone())).collect());
    if *name != exp.name || *attrs != mine || *sc != exp.self_closing {
        return Some(format!("reference models disagree on {:?}: html5ever {:?} {:?} sc={} vs R-attr {:?} {:?} sc={}", lossy(tag), name, attrs, sc, exp.name, mine, exp.self_closing));
    }
    None
}

fn edit_menu() -> Vec<Op> {
    vec![
        Op::SetAttr("a".into(), "1".into()),
        Op::SetAttr("A".into(), "x\"y".into()),
        Op::SetAttr("new".into(), "2".into()),
        Op::SetAttr("b".into(), "".into()),
        Op::RemoveAttr("a".into()),
        Op::RemoveAttr("B".into()),
        Op::RemoveAttr("zz".into()),
        Op::SetTagName("zz".into()),
        Op::SetTagName("Q-r".into()),
    ]
}

/// Reads after an edit reflect it (model of the edit over the expected attribute list).
fn check_edit(p: &Prepared, op: &Op, doc: &[u8], tag_start: usize, tag_len: usize, ns: Ns) -> (Option<String>, usize) {
    check_edits(p, std::slice::from_ref(op), doc, tag_start, tag_len, ns)
}

/// A script of edits on one token, then one re-read.
fn check_edits(p: &Prepared, ops: &[Op], doc: &[u8], tag_start: usize, tag_len: usize, ns: Ns) -> (Option<String>, usize) {
    let tag = &doc[tag_start..tag_start + tag_len];
    let Some(exp) = expectation(tag, ns, p.encoding) else { return (None, 0) };
    let rr = run(p, &[doc], true);
    let calls = rr.results.len();
    if !rr.all_ok() {
        return (Some("run failed".into()), calls);
    }
    let mut model: Vec<(String, String)> = exp.attrs.iter().map(|(l, _, v)| (l.clone(), v.clone())).collect();
    let mut name = exp.name.clone();
    for op in ops {
        match op {
            Op::SetAttr(n, v) => {
                let l = n.to_ascii_lowercase();
                if let Some(a) = model.iter_mut().find(|(m, _)| *m == l) {
                    a.1 = v.clone();
                } else {
                    model.push((l, v.clone()));
                }
            }
            Op::RemoveAttr(n) => {
                let l = n.to_ascii_lowercase();
                model.retain(|(m, _)| *m != l);
            }
            Op::SetTagName(n) => name = n.to_ascii_lowercase(),
            _ => {}
        }
    }
    let op = ops;
    let Some(pos) = rr.events.iter().position(|e| matches!(e, Ev::El { loc, .. } if loc.0 == tag_start)) else {
        return (Some("no element event".into()), calls);
    };
    let Some(Ev::ReRead { name: got_name, attrs: got, .. }) = rr.events[pos..].iter().find(|e| matches!(e, Ev::ReRead { .. })) else {
        return (Some("no re-read event".into()), calls);
    };
    if *got_name != name || *got != model {
        return (
            Some(format!(
                "tag {:?} after {:?}: re-read gives name {:?} attrs {:?}, expected name {:?} attrs {:?}",
                lossy(tag), op, got_name, got, name, model
            )),
            calls,
        );
    }
    // a LATER handler on the same element (registered second) sees the edited token as well
    if p.cfg.handlers.len() > 1 {
        let Some(Ev::El { name: n2, attrs: a2, ns: ns2, can_have_content: chc2, .. }) = rr.events.iter().find(|e| matches!(e, Ev::El { reg: 1, loc, .. } if loc.0 == tag_start)) else {
            return (Some(format!("tag {:?} after {:?}: the second handler did not run", lossy(tag), op)), calls);
        };
        let got2: Vec<(String, String)> = a2.iter().map(|a| (a.name.clone(), a.value.clone())).collect();
        if *n2 != name || got2 != model {
            return (Some(format!("tag {:?} after {:?} by an earlier handler: a later handler reads name {:?} attrs {:?}, expected name {:?} attrs {:?}", lossy(tag), op, n2, got2, name, model)), calls);
        }
        if ns2 != exp.ns || *chc2 != exp.can_have_content {
            return (Some(format!("tag {:?} after {:?} by an earlier handler: a later handler reads namespace {:?} / can_have_content {}, expected {:?} / {}", lossy(tag), op, ns2, chc2, exp.ns, exp.can_have_content)), calls);
        }
    }
    (None, calls)
}

fn build_doc(ti: usize, idx: &[usize], ci: usize, enc: &'static encoding_rs::Encoding) -> (Vec<u8>, usize, usize, Ns) {
    let mut tag = format!("<{}", NAMES[ti]);
    for &i in idx {
        tag.push_str(PIECES[i]);
    }
    tag.push('>');
    let (pre, post, ns) = CONTEXTS[ci];
    let enc_bytes = |s: &str| enc.encode(s).0.into_owned();
    let mut doc = enc_bytes(pre);
    let start = doc.len();
    let t = enc_bytes(&tag);
    doc.extend_from_slice(&t);
    doc.extend_from_slice(&enc_bytes("x"));
    doc.extend_from_slice(&enc_bytes(post));
    (doc, start, t.len(), ns)
}

/// Listed finding `integration-point-left-at-same-name-end-tag`: an HTML element inside the HTML
/// content of an integration point that is named like the integration point; at its end tag the
/// namespace simulation (keyed on end-tag names) leaves the integration point, so what follows is
/// treated as foreign content. (prefix, suffix, namespace the implementation assumes)
const FINDING_CTX: &[(&str, &str, Ns)] = &[
    ("<svg><desc><desc>y</desc>", "</desc></svg>", Ns::Svg),
    ("<svg><foreignObject><p><foreignobject></foreignobject></p>", "</foreignObject></svg>", Ns::Svg),
    ("<math><mi><mi>y</mi>", "</mi></math>", Ns::MathMl),
    ("<math><mtext><b><mtext></mtext></b>", "</mtext></math>", Ns::MathMl),
];
const FINDING_NAMES: &[&str] = &["a", "x-long-custom-element", "input", "A"];

fn finding_doc(fi: usize, ni: usize, idx: &[usize]) -> (Vec<u8>, usize, usize) {
    let mut tag = format!("<{}", FINDING_NAMES[ni]);
    for &i in idx {
        tag.push_str(PIECES[i]);
    }
    tag.push('>');
    let (pre, post, _) = FINDING_CTX[fi];
    let mut doc = pre.as_bytes().to_vec();
    let start = doc.len();
    doc.extend_from_slice(tag.as_bytes());
    doc.extend_from_slice(b"x");
    doc.extend_from_slice(post.as_bytes());
    (doc, start, tag.len())
}

/// Returns (message, matches the as-implemented reading) when the documented reading fails.
fn finding_check(p: &Prepared, fi: usize, ni: usize, idx: &[usize], cut: Option<usize>) -> (Option<(String, bool)>, usize) {
    let (doc, start, len) = finding_doc(fi, ni, idx);
    let cut = cut.map(|c| start + c);
    let (m, calls, _) = check_read(p, &doc, start, len, Ns::Html, cut);
    match m {
        None => (None, calls),
        Some(msg) => {
            let (m2, calls2, _) = check_read(p, &doc, start, len, FINDING_CTX[fi].2, cut);
            (Some((format!("`{}`: {msg}", lossy(&doc)), m2.is_none())), calls + calls2)
        }
    }
}

/// Histories before the tag: an element matched only by a text / comment handler (no element
/// handler runs for it), then the tag that is read. (prefix, suffix, namespace of the tag)
const HISTORIES: &[(&str, &str, Ns)] = &[
    ("<p>t</p>", "", Ns::Html),
    ("<p><!--c--></p>", "", Ns::Html),
    ("<p>t", "</p>", Ns::Html),
    ("<svg><text>t</text>", "</svg>", Ns::Svg),
    ("<p>t</p><svg>", "</svg>", Ns::Svg),
    ("<p>t</p><math>", "</math>", Ns::MathMl),
];

fn history_cfg() -> Cfg {
    let quiet = |h: HSpec| HSpec { log: false, ..h };
    Cfg::with(vec![
        quiet(HSpec::obs(HKind::Text, "p, text")),
        quiet(HSpec::obs(HKind::Comments, "p")),
        HSpec::with_ops(HKind::Element, ":not(p):not(text):not(svg):not(math)", lookup_ops(encoding_rs::UTF_8)),
    ])
    .strict(false)
}

fn history_doc(hi: usize, ti: usize, idx: &[usize]) -> (Vec<u8>, usize, usize, Ns) {
    let mut tag = format!("<{}", NAMES[ti]);
    for &i in idx {
        tag.push_str(PIECES[i]);
    }
    tag.push('>');
    let (pre, post, ns) = HISTORIES[hi];
    let doc = format!("{pre}{tag}x{post}");
    (doc.into_bytes(), pre.len(), tag.len(), ns)
}

pub fn replay(case: &Value) -> Option<String> {
    if case["kind"].as_str() == Some("bigtag") {
        let doc = unhex(case["doc_hex"].as_str()?);
        let p = Prepared::new(base_cfg("UTF-8", lookup_ops(encoding_rs::UTF_8))).ok()?;
        let ns = if case["svg"].as_bool()? { Ns::Svg } else { Ns::Html };
        return check_read(&p, &doc, case["start"].as_u64()? as usize, case["len"].as_u64()? as usize, ns, case["cut"].as_u64().map(|c| c as usize)).0;
    }
    if case["kind"].as_str() == Some("history") {
        let idx: Vec<usize> = serde_json::from_value(case["pieces"].clone()).ok()?;
        let (doc, start, len, ns) = history_doc(case["history"].as_u64()? as usize, case["name"].as_u64()? as usize, &idx);
        let p = Prepared::new(history_cfg()).ok()?;
        return check_read(&p, &doc, start, len, ns, case["cut"].as_u64().map(|c| c as usize)).0;
    }
    if case["kind"].as_str() == Some("ipfind") {
        let idx: Vec<usize> = serde_json::from_value(case["pieces"].clone()).ok()?;
        let p = Prepared::new(base_cfg("UTF-8", lookup_ops(encoding_rs::UTF_8))).ok()?;
        return finding_check(&p, case["ctx"].as_u64()? as usize, case["name"].as_u64()? as usize, &idx, case["cut"].as_u64().map(|c| c as usize)).0.map(|x| x.0);
    }
    let ti = case["name"].as_u64()? as usize;
    let idx: Vec<usize> = serde_json::from_value(case["pieces"].clone()).ok()?;
    let ci = case["context"].as_u64()? as usize;
    let enc = encoding_rs::Encoding::for_label(case["encoding"].as_str()?.as_bytes())?;
    let (doc, start, len, ns) = build_doc(ti, &idx, ci, enc);
    match case["kind"].as_str()? {
        "read" => {
            let p = Prepared::new(base_cfg(enc.name(), lookup_ops(enc))).ok()?;
            let cut = case["cut"].as_u64().map(|c| c as usize);
            check_read(&p, &doc, start, len, ns, cut).0
        }
        "edits" => {
            let ops: Vec<Op> = serde_json::from_value(case["ops"].clone()).ok()?;
            let mut c = base_cfg(enc.name(), ops.clone());
            if case["two_handlers"].as_bool().unwrap_or(false) {
                c.handlers.push(HSpec::obs(HKind::Element, "*"));
            }
            let p = Prepared::new(c).ok()?;
            check_edits(&p, &ops, &doc, start, len, ns).0
        }
        "h5" => {
            let exp = expectation(&doc[start..start + len], ns, enc)?;
            check_h5(std::str::from_utf8(&doc).ok()?, &doc[start..start + len], &exp)
        }
        _ => {
            let op: Op = serde_json::from_value(case["op"].clone()).ok()?;
            let p = Prepared::new(base_cfg(enc.name(), vec![op.clone()])).ok()?;
            check_edit(&p, &op, &doc, start, len, ns).0
        }
    }
}

pub fn run_check(ctx: &Ctx) -> i32 {
    let max = if ctx.quick() { 5 } else { 6 };
    let encs: Vec<&'static encoding_rs::Encoding> = vec![encoding_rs::UTF_8, encoding_rs::WINDOWS_1252, encoding_rs::SHIFT_JIS];
    let read_cfgs: Vec<Prepared> = encs.iter().map(|e| Prepared::new(base_cfg(e.name(), lookup_ops(e))).unwrap()).collect();
    let edits = edit_menu();
    let edit_cfgs: Vec<Vec<Prepared>> = encs.iter().map(|e| edits.iter().map(|op| Prepared::new(base_cfg(e.name(), vec![op.clone()])).unwrap()).collect()).collect();
    let nseq = crate::alpha::count_upto(PIECES.len(), max);
    par_for(nseq * NAMES.len(), 8, |j| {
        if ctx.over_time() {
            return;
        }
        let ti = j % NAMES.len();
        let mut idx = vec![];
        crate::alpha::seq_at(j / NAMES.len(), PIECES.len(), &mut idx);
        if ti >= DEEP_NAMES && idx.len() > 2 {
            return;
        }
        for (ei, enc) in encs.iter().enumerate() {
            for ci in 0..CONTEXTS.len() {
                // the deepest level is explored in the HTML context and UTF-8 only
                if idx.len() == max && max > 3 && (ci > 1 || ei > 0) {
                    continue;
                }
                // the four additional contexts get the two deepest levels in UTF-8 only
                if ci >= 4 && idx.len() + 1 >= max && max > 3 && ei > 0 {
                    continue;
                }
                // an HTML breakout tag (br) inside svg/math leaves foreign content: outside the
                // statement's "foreign-content context"
                if CONTEXTS[ci].2 != Ns::Html && crate::docgen::BREAKOUT.contains(&NAMES[ti].to_ascii_lowercase().as_str()) {
                    continue;
                }
                let (doc, start, len, ns) = build_doc(ti, &idx, ci, enc);
                let case_base = json!({"name": ti, "pieces": idx, "context": ci, "encoding": enc.name(), "doc_lossy": lossy(&doc)});
                let report = |msg: String, extra: Value| {
                    let mut case = case_base.clone();
                    for (k, v) in extra.as_object().unwrap() {
                        case[k] = v.clone();
                    }
                    let c2 = case.clone();
                    ctx.violation(msg, case, &|| replay(&c2));
                };
                let Some(exp) = expectation(&doc[start..start + len], ns, enc) else { continue };
                ctx.states.insert(digest(&doc));
                let cuts: Vec<Option<usize>> = std::iter::once(None).chain((start + 1..start + len).map(Some)).collect();
                for cut in cuts {
                    let (m, calls, nontrivial) = check_read(&read_cfgs[ei], &doc, start, len, ns, cut);
                    ctx.exec(calls);
                    ctx.validated(1);
                    if nontrivial {
                        ctx.nontrivial.insert(digest(&doc[start..start + len]));
                    }
                    if let Some(msg) = m {
                        report(msg, json!({"kind": "read", "cut": cut}));
                    }
                }
                if ei == 0 && ci == 0 {
                    ctx.validated(1);
                    if let Some(msg) = check_h5(std::str::from_utf8(&doc).unwrap(), &doc[start..start + len], &exp) {
                        report(msg, json!({"kind": "h5"}));
                    }
                }
                ctx.outcomes.insert(digest(&(exp.attrs.len(), exp.self_closing, exp.can_have_content)));
                if idx.len() < max || max <= 3 {
                    for (oi, op) in edits.iter().enumerate() {
                        let (m, calls) = check_edit(&edit_cfgs[ei][oi], op, &doc, start, len, ns);
                        ctx.exec(calls);
                        ctx.validated(1);
                        if let Some(msg) = m {
                            report(msg, json!({"kind": "edit", "op": op}));
                        }
                    }
                }
            }
        }
        if j % 7_001 == 11 {
            let (doc, ..) = build_doc(ti, &idx, 1, encoding_rs::UTF_8);
            ctx.sample(json!({"document": lossy(&doc)}));
        }
    });
    if !ctx.capped.load(std::sync::atomic::Ordering::Relaxed) {
        ctx.level_done(&format!("5 tag names x pieces<={max} (and {} further names: every void element, case variants, near misses, ordinary names x pieces<=2) x 8 contexts x 3 encodings x every cut inside the tag; 9 edits + re-read up to pieces<={}", NAMES.len() - DEEP_NAMES, if max > 3 { max - 1 } else { max }));
    }
    // many attributes, long names and values: counts and lengths around 8, 16, 32, 64 / 12, 13, 300
    {
        let p = Prepared::new(base_cfg("UTF-8", lookup_ops(encoding_rs::UTF_8))).unwrap();
        let mut tags: Vec<String> = vec![];
        let counts: &[usize] = if ctx.quick() { &[8, 9, 16, 17, 32, 33, 64, 65] } else { &[7, 8, 9, 15, 16, 17, 31, 32, 33, 63, 64, 65, 127, 128, 129, 300] };
        for &n in counts {
            tags.push(format!("<a{}>", (0..n).map(|i| format!(" k{i}=v{i}")).collect::<String>()));
            tags.push(format!("<a{} a=1 B='2' a=3>", (0..n).map(|i| format!(" k{i}")).collect::<String>()));
            tags.push(format!("<a b=x{} b=y A=z>", " a=\"\"".repeat(n)));
            tags.push(format!("<a {}=v b={}>", "n".repeat(n), "w".repeat(n)));
            tags.push(format!("<{} a=\"{}\" b>", "t".repeat(n), "v ".repeat(n)));
            tags.push(format!("<a{}/>", (0..n).map(|i| format!("/k{i}=\"{i}\"")).collect::<String>()));
        }
        par_for(tags.len(), 1, |i| {
            if ctx.over_time() {
                return;
            }
            let tag = &tags[i];
            for (pre, post, ns) in [("", "", Ns::Html), ("<svg>", "</svg>", Ns::Svg), ("<p>t</p>", "", Ns::Html)] {
                let doc = format!("{pre}{tag}x{post}").into_bytes();
                let (start, len) = (pre.len(), tag.len());
                for cut in [None, Some(start + 2), Some(start + len / 2), Some(start + len - 1)] {
                    let (m, calls, _) = check_read(&p, &doc, start, len, ns, cut);
                    ctx.exec(calls);
                    ctx.validated(1);
                    if let Some(msg) = m {
                        let case = json!({"kind": "bigtag", "doc_hex": hex(&doc), "start": start, "len": len, "svg": ns == Ns::Svg, "cut": cut, "doc_lossy": lossy(&doc[..doc.len().min(120)])});
                        let c2 = case.clone();
                        ctx.violation(msg, case, &|| replay(&c2));
                    }
                }
                ctx.states.insert(digest(&doc));
            }
        });
        if !ctx.capped.load(std::sync::atomic::Ordering::Relaxed) {
            ctx.level_done(&format!("{} start tags with {:?} attributes / duplicates / name and value lengths x 3 contexts x 4 schedules: read API == R-attr", tags.len(), counts));
        }
    }
    // histories: the element before the tag was matched by a text / comment handler only
    {
        let hp = Prepared::new(history_cfg()).unwrap();
        let nseq = crate::alpha::count_upto(PIECES.len(), 2);
        par_for(nseq * NAMES.len(), 8, |j| {
            if ctx.over_time() {
                return;
            }
            let ti = j % NAMES.len();
            let mut idx = vec![];
            crate::alpha::seq_at(j / NAMES.len(), PIECES.len(), &mut idx);
            if ["p", "text", "svg", "math"].contains(&NAMES[ti].to_ascii_lowercase().as_str()) {
                return; // the element handler's selector excludes them
            }
            for hi in 0..HISTORIES.len() {
                if HISTORIES[hi].2 != Ns::Html && crate::docgen::BREAKOUT.contains(&NAMES[ti].to_ascii_lowercase().as_str()) {
                    continue;
                }
                let (doc, start, len, ns) = history_doc(hi, ti, &idx);
                if expectation(&doc[start..start + len], ns, encoding_rs::UTF_8).is_none() {
                    continue;
                }
                for cut in [None, Some(start), Some(start + 1)] {
                    let (m, calls, _) = check_read(&hp, &doc, start, len, ns, cut);
                    ctx.exec(calls);
                    ctx.validated(1);
                    if let Some(msg) = m {
                        let case = json!({"kind": "history", "history": hi, "name": ti, "pieces": idx, "cut": cut, "doc_lossy": lossy(&doc)});
                        let c2 = case.clone();
                        ctx.violation(msg, case, &|| replay(&c2));
                    }
                }
            }
        });
        if !ctx.capped.load(std::sync::atomic::Ordering::Relaxed) {
            ctx.level_done(&format!("{} names x pieces<=2 x {} histories (the previous element matched by a text / comment handler only) x 3 schedules: read API of the tag", NAMES.len(), HISTORIES.len()));
        }
    }
    // edit scripts: every sequence of 2 and 3 edits from a 6-edit menu on every tag <= 3 pieces
    // (emptying the attribute list and editing again, overwriting, renaming in between), one re-read
    {
        let menu = [
            Op::RemoveAttr("a".into()), Op::RemoveAttr("B".into()), Op::RemoveAttr("zz".into()),
            Op::SetAttr("a".into(), "1".into()), Op::SetAttr("new".into(), "2".into()), Op::SetTagName("q".into()),
        ];
        let mut scripts: Vec<Vec<Op>> = vec![];
        for a in &menu {
            for b in &menu {
                scripts.push(vec![a.clone(), b.clone()]);
                for c in &menu {
                    scripts.push(vec![a.clone(), b.clone(), c.clone()]);
                }
            }
        }
        let cfgs: Vec<Prepared> = scripts.iter().map(|sc| Prepared::new(base_cfg("UTF-8", sc.clone())).unwrap()).collect();
        // the same scripts run by a first handler, observed by a second handler on the same element
        let two = |sc: &Vec<Op>| {
            let mut c = base_cfg("UTF-8", sc.clone());
            c.handlers.push(HSpec::obs(HKind::Element, "*"));
            c
        };
        let cfgs2: Vec<Prepared> = scripts.iter().map(|sc| Prepared::new(two(sc)).unwrap()).collect();
        let n3 = crate::alpha::count_upto(PIECES.len(), 3);
        par_for(n3, 4, |j| {
            let mut idx = vec![];
            crate::alpha::seq_at(j, PIECES.len(), &mut idx);
            for ci in [0usize, 1, 6] {
                let (doc, start, len, ns) = build_doc(0, &idx, ci, encoding_rs::UTF_8);
                if expectation(&doc[start..start + len], ns, encoding_rs::UTF_8).is_none() {
                    continue;
                }
                for (si, sc) in scripts.iter().enumerate() {
                    for (two_handlers, p) in [(false, &cfgs[si]), (true, &cfgs2[si])] {
                        if ci != 0 && !two_handlers {
                            continue;
                        }
                        let (m, calls) = check_edits(p, sc, &doc, start, len, ns);
                        ctx.exec(calls);
                        ctx.validated(1);
                        if let Some(msg) = m {
                            let case = json!({"kind": "edits", "name": 0, "pieces": idx, "context": ci, "encoding": "UTF-8", "ops": sc, "two_handlers": two_handlers, "doc_lossy": lossy(&doc)});
                            let c2 = case.clone();
                            ctx.violation(msg, case, &|| replay(&c2));
                        }
                    }
                }
            }
        });
        ctx.level_done(&format!("{} edit scripts of 2-3 calls (remove / set / rename) x every <a ...> tag of <=3 pieces: one re-read reflects all of them, and so does a later handler on the same element (HTML, svg, MathML integration point)", scripts.len()));
    }
    // <font> in foreign content: with a color / face / size attribute it leaves foreign content
    // (an HTML element), otherwise it is a foreign element
    {
        let p = Prepared::new(base_cfg("UTF-8", lookup_ops(encoding_rs::UTF_8))).unwrap();
        let attrs = ["", " color=x", " FACE=y", " size", " a=b", " a color=\"z\"", " sizes=1", " Color"];
        let mut jobs = vec![];
        for (pre, fns) in [("<svg>", Ns::Svg), ("<math>", Ns::MathMl), ("<svg><g>", Ns::Svg), ("<math><mrow>", Ns::MathMl)] {
            for a in attrs {
                for slash in ["", "/"] {
                    let tag = format!("<font{a}{slash}>");
                    let breakout = ["color", "face", "size"].iter().any(|k| a.to_ascii_lowercase().split(|c: char| c == ' ' || c == '=').any(|w| w == *k));
                    jobs.push((pre, tag, if breakout { Ns::Html } else { fns }));
                }
            }
        }
        par_for(jobs.len(), 1, |j| {
            let (pre, tag, ns) = &jobs[j];
            let mut doc = pre.as_bytes().to_vec();
            let start = doc.len();
            doc.extend_from_slice(tag.as_bytes());
            doc.extend_from_slice(b"x<b>");
            for cut in std::iter::once(None).chain((start + 1..start + tag.len()).map(Some)) {
                let (m, calls, _) = check_read(&p, &doc, start, tag.len(), *ns, cut);
                ctx.exec(calls);
                ctx.validated(1);
                if let Some(msg) = m {
                    let (p2, d2, tl, ns2) = (Prepared::new(p.cfg.clone()).unwrap(), doc.clone(), tag.len(), *ns);
                    ctx.violation(format!("`{}`: {msg}", lossy(&doc)), json!({"kind": "font", "doc_lossy": lossy(&doc), "cut": cut}), &|| check_read(&p2, &d2, start, tl, ns2, cut).0.map(|m| format!("`{}`: {m}", lossy(&d2))));
                }
            }
        });
        ctx.level_done("<font> with / without color, face, size attributes (8 attribute lists x {plain, self-closing}) in 4 svg / math contexts x every cut: HTML element iff it has one of the three attributes");
    }
    // ESI tags: void only when the setting is on
    {
        const ESI_NAMES: &[&str] = &["esi:include", "esi:comment", "esi:remove", "ESI:Include", "esi:includes", "esi:", "esi-include", "xesi:include"];
        let pe: Vec<Prepared> = [true, false].iter().map(|&on| Prepared::new(Cfg { esi: on, ..base_cfg("UTF-8", lookup_ops(encoding_rs::UTF_8)) }).unwrap()).collect();
        let n2 = crate::alpha::count_upto(PIECES.len(), 2);
        par_for(n2 * ESI_NAMES.len(), 8, |j| {
            let mut idx = vec![];
            crate::alpha::seq_at(j / ESI_NAMES.len(), PIECES.len(), &mut idx);
            let mut tag = format!("<{}", ESI_NAMES[j % ESI_NAMES.len()]);
            for &i in &idx {
                tag.push_str(PIECES[i]);
            }
            tag.push('>');
            for (pre, ns) in [("", Ns::Html), ("<svg>", Ns::Svg)] {
                let mut doc = pre.as_bytes().to_vec();
                let start = doc.len();
                doc.extend_from_slice(tag.as_bytes());
                doc.extend_from_slice(b"x<b>");
                for p in &pe {
                    for cut in std::iter::once(None).chain((start + 1..start + tag.len()).map(Some)) {
                        let (m, calls, _) = check_read(p, &doc, start, tag.len(), ns, cut);
                        ctx.exec(calls);
                        ctx.validated(1);
                        if let Some(msg) = m {
                            let (p2, d2, tl) = (Prepared::new(p.cfg.clone()).unwrap(), doc.clone(), tag.len());
                            ctx.violation(format!("enable_esi_tags={}: {msg}", p.cfg.esi), json!({"kind": "esi", "esi": p.cfg.esi, "doc_lossy": lossy(&doc), "cut": cut}), &|| check_read(&p2, &d2, start, tl, ns, cut).0.map(|m| format!("enable_esi_tags={}: {m}", p2.cfg.esi)));
                        }
                    }
                }
            }
        });
        ctx.level_done("8 ESI-like tag names x pieces<=2 x {HTML, svg} x enable_esi_tags {on, off} x every cut (esi:include / esi:comment are void only when the setting is on)");
    }
    // the listed finding's own slice: every tag <= 2 pieces directly after an HTML element that is
    // named like the enclosing integration point
    {
        let p = Prepared::new(base_cfg("UTF-8", lookup_ops(encoding_rs::UTF_8))).unwrap();
        let n2 = crate::alpha::count_upto(PIECES.len(), 2);
        par_for(n2 * FINDING_CTX.len() * FINDING_NAMES.len(), 8, |j| {
            let fi = j % FINDING_CTX.len();
            let ni = (j / FINDING_CTX.len()) % FINDING_NAMES.len();
            let mut idx = vec![];
            crate::alpha::seq_at(j / FINDING_CTX.len() / FINDING_NAMES.len(), PIECES.len(), &mut idx);
            let (doc, start, len) = finding_doc(fi, ni, &idx);
            if expectation(&doc[start..start + len], Ns::Html, encoding_rs::UTF_8).is_none() {
                return;
            }
            for cut in std::iter::once(None).chain((1..len).map(Some)) {
                let (m, calls) = finding_check(&p, fi, ni, &idx, cut);
                ctx.exec(calls);
                ctx.validated(1);
                if let Some((msg, as_implemented)) = m {
                    let case = json!({"kind": "ipfind", "ctx": fi, "name": ni, "pieces": idx, "cut": cut, "doc_lossy": lossy(&doc)});
                    let c2 = case.clone();
                    if as_implemented {
                        ctx.known_or_violation("integration-point-left-at-same-name-end-tag", msg, case, &|| replay(&c2));
                    } else {
                        ctx.violation(msg, case, &|| replay(&c2));
                    }
                }
            }
        });
        ctx.level_done("4 contexts with an HTML element named like the enclosing integration point x 4 tag names x pieces<=2 x every cut (listed finding: classified against the as-implemented namespace)");
    }
    ctx.finish(
        "model_checking",
        RULE,
        &["R-attr is a transcription of the WHATWG tag-name/attribute tokenizer states; it is cross-checked against html5ever's tag token on every UTF-8/HTML-context tag", "remove_attribute is modelled as removing every attribute with that (case-insensitive) name"],
        true,
    )
}
