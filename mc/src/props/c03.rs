//! C03 Strict-mode tokenization equals the WHATWG parser's; ambiguity is refused.

use crate::alpha::*;
use crate::common::*;
use crate::drive::*;
use crate::explore::*;
use crate::rtok::*;
use crate::tokseam::*;
use serde_json::{Value, json};
use std::collections::HashMap;

const RULE: &str = "tag soup: every string over F (len<=k) and 14 HTML-namespace contexts x F (len<=k-1), without svg/math; foreign content: every document of the well-nested grammar G with <=n nodes. For each input: html5ever 0.39 Tokenizer+TreeBuilder(RcDom) token list W; the implementation's token list through the TransformController seam under capture sets {all, each single kind, none} x strict{t,f} x L0 + every 1-cut, and through public handlers (document-level all + element(*) + on_end_tag). Oracles: strict success => tokens == W (filtered to the captured kinds), output == input, identical to non-strict; strict failure => ParsingAmbiguity at a text-mode-switching start tag for which R-guard (select / template-in-select / frameset context, from the tag sequence) holds; a text-mode-switching start tag inside those contexts => the strict run must fail there (also over a 17-fragment guard alphabet up to length 5/6). non-trivial = distinct input whose W has >= 2 tokens";

const TEXT_SWITCH: &[&str] = &[
    "textarea", "title", "plaintext", "script", "style", "iframe", "xmp", "noembed", "noframes", "noscript",
];

/// HTML-namespace contexts (C03's tag-soup domain has no svg/math).
const CTX_HTML: &[&str] = &[
    "<script>", "<script><!--", "<script><!--<script>", "<title>", "<textarea>", "<style>", "<xmp>",
    "<plaintext>", "<!DOCTYPE a ", "<select>", "<!--", "<a b=\"", "<template><select>", "<noscript>",
    "<frameset>", "<select><template>", "<table><select>",
];

fn normalise_impl(toks: Vec<Tok>) -> Vec<Tok> {
    toks.into_iter()
        .map(|t| match t {
            Tok::Start { name, attrs, sc } => Tok::Start { name, attrs: dedup_attrs(attrs), sc },
            o => o,
        })
        .collect()
}

fn filter_kinds(w: &[Tok], bits: u8) -> Vec<Tok> {
    let mut out: Vec<Tok> = vec![];
    for t in w {
        if t.kind() & bits != 0 {
            if let Tok::Text(s) = t {
                push_text(&mut out, s);
            } else {
                out.push(t.clone());
            }
        }
    }
    out
}

/// R-guard: is a strict-mode refusal at the last tag of `tags` justified by the statement's
/// contexts? `tags` is the tag sequence (start: (name,true), end: (name,false)) up to and
/// including the refused start tag.
fn r_guard(tags: &[(String, bool)]) -> Result<(), String> {
    let Some((last, true)) = tags.last().map(|(n, s)| (n.as_str(), *s)) else {
        return Err("refusal not at a start tag".into());
    };
    if !TEXT_SWITCH.contains(&last) {
        return Err(format!("refused <{last}>, which is not a text-mode-switching tag"));
    }
    let mut in_select = false;
    let mut template_depth = 0usize;
    let mut frameset = false;
    for (name, start) in &tags[..tags.len() - 1] {
        match (name.as_str(), *start) {
            ("select", true) => {
                if !in_select {
                    in_select = true;
                    template_depth = 0;
                }
            }
            ("select", false) => {
                if in_select && template_depth == 0 {
                    in_select = false;
                }
            }
            ("template", true) if in_select => template_depth += 1,
            ("template", false) if in_select && template_depth > 0 => template_depth -= 1,
            ("frameset", true) => frameset = true,
            _ => {}
        }
    }
    if in_select || frameset {
        Ok(())
    } else {
        Err(format!("refused <{last}> although no select is open and no frameset was seen"))
    }
}

/// The other direction ("ambiguity is refused"): index into `tags` of the first start tag at
/// which a strict run MUST fail — a text-mode-switching start tag inside select (template in
/// select included; `<script>` directly in select is allowed; `<select>`, `<textarea>`, `<input>`
/// and `<keygen>` directly in select leave it) or anywhere after a `<frameset>` start tag seen
/// outside select (`<noframes>` allowed). Written from the statement and the documented contexts.
fn first_must_refuse(tags: &[(String, bool)]) -> Option<usize> {
    let mut in_select = false;
    let mut tdepth = 0usize;
    let mut frameset = false;
    // templates open outside select: a select opened inside one is closed by its end tag
    let mut outer_templates = 0usize;
    for (i, (name, start)) in tags.iter().enumerate() {
        let n = name.as_str();
        if frameset {
            if *start && n != "noframes" && TEXT_SWITCH.contains(&n) {
                return Some(i);
            }
            continue;
        }
        if !in_select {
            match (n, *start) {
                ("select", true) => {
                    in_select = true;
                    tdepth = 0;
                }
                ("frameset", true) => frameset = true,
                ("template", true) => outer_templates += 1,
                ("template", false) => outer_templates = outer_templates.saturating_sub(1),
                _ => {}
            }
            continue;
        }
        match (n, *start) {
            ("template", false) if tdepth == 0 && outer_templates > 0 => {
                outer_templates -= 1;
                in_select = false;
            }
            ("select" | "textarea" | "input" | "keygen", true) if tdepth == 0 => in_select = false,
            ("select", false) if tdepth == 0 => in_select = false,
            ("template", true) => tdepth += 1,
            ("template", false) if tdepth > 0 => tdepth -= 1,
            ("script", true) if tdepth == 0 => {}
            (_, true) if TEXT_SWITCH.contains(&n) => return Some(i),
            _ => {}
        }
    }
    None
}

/// Removes the start/end tag tokens of `<annotation-xml data-w>` wrappers (as-implemented
/// reference documents only).
fn strip_marker_wrappers(w: Vec<Tok>) -> Vec<Tok> {
    let mut stack: Vec<bool> = vec![];
    let mut out = vec![];
    for t in w {
        match &t {
            Tok::Start { name, attrs, sc } if name == "annotation-xml" => {
                let marker = attrs.iter().any(|(n, _)| n == "data-w");
                if !*sc {
                    stack.push(marker);
                }
                if !marker {
                    out.push(t);
                }
            }
            Tok::End { name } if name == "annotation-xml" => {
                if stack.pop() != Some(true) {
                    out.push(t);
                }
            }
            _ => out.push(t),
        }
    }
    out
}

fn tag_seq(toks: &[Tok]) -> Vec<(String, bool)> {
    toks.iter()
        .filter_map(|t| match t {
            Tok::Start { name, .. } => Some((name.clone(), true)),
            Tok::End { name } => Some((name.clone(), false)),
            _ => None,
        })
        .collect()
}

fn describe_diff(a: &[Tok], b: &[Tok]) -> String {
    let i = a.iter().zip(b.iter()).position(|(x, y)| x != y).unwrap_or(a.len().min(b.len()));
    format!("first difference at token #{i}: implementation {:?} vs WHATWG {:?} (lens {} vs {})", a.get(i), b.get(i), a.len(), b.len())
}

#[derive(Clone, Copy, PartialEq, Debug)]
pub enum Depth {
    /// L0 only
    L0,
    /// L0 + every single cut for the all-capture strict run
    L1,
}

/// All oracles for one input. Returns (message, signature-relevant?) on failure.
pub fn check_input(input: &[u8], depth: Depth, stats: Option<&Ctx>) -> Option<String> {
    check_input_ref(input, None, depth, stats)
}

/// `reference_doc`: feed this document (instead of the input itself) to the WHATWG reference —
/// used only to classify the listed known finding (as-implemented reading of the input).
pub fn check_input_ref(input: &[u8], reference_doc: Option<&str>, depth: Depth, stats: Option<&Ctx>) -> Option<String> {
    let Ok(s) = std::str::from_utf8(input) else { return None };
    let mut w = whatwg_tokens(reference_doc.unwrap_or(s));
    if reference_doc.is_some_and(|r| r.contains(WRAP_OPEN)) {
        w = strip_marker_wrappers(w);
    }
    if let Some(c) = stats {
        c.validated(1);
        if w.len() >= 2 {
            c.nontrivial.insert(digest(input));
        }
        c.outcomes.insert(digest(&w));
    }
    let count = |r: &SeamRun| {
        if let Some(c) = stats {
            c.exec(r.calls);
        }
    };
    let strict_all = run_seam(&[input], 0b11111, true);
    count(&strict_all);
    let lax_all = run_seam(&[input], 0b11111, false);
    count(&lax_all);
    if let CallRes::Panic(m) = &strict_all.res {
        return Some(format!("panic in strict run: {m}"));
    }
    if !lax_all.res.is_ok() {
        return Some(format!("non-strict run failed: {}", lax_all.res.short()));
    }
    let lax_toks = normalise_impl(lax_all.toks.clone());
    let all_tags = tag_seq(&lax_toks);
    let must = first_must_refuse(&all_tags);
    match &strict_all.res {
        CallRes::Ok => {
            if let Some(m) = must {
                return Some(format!("missing strict-mode refusal: text-mode-switching start tag <{}> (tag #{m} of the document) is inside select / template-in-select or after frameset, but the strict run succeeded", all_tags[m].0));
            }
            let st = normalise_impl(strict_all.toks.clone());
            if st != w {
                return Some(format!("strict run succeeded but its tokens differ from the WHATWG tokenizer+tree builder: {}", describe_diff(&st, &w)));
            }
            if strict_all.out != input {
                return Some("strict run succeeded but output != input".into());
            }
            if st != lax_toks || lax_all.out != strict_all.out {
                return Some(format!("strict and non-strict runs differ: {}", describe_diff(&st, &lax_toks)));
            }
            // capture subsets
            for bits in [0b00001u8, 0b00010, 0b00100, 0b01000, 0b10000, 0] {
                let r = run_seam(&[input], bits, true);
                count(&r);
                if !r.res.is_ok() {
                    return Some(format!("capture set {bits:#07b}: strict run failed ({}) although all-capture run succeeded", r.res.short()));
                }
                let got = normalise_impl(r.toks);
                let want = filter_kinds(&w, bits);
                if got != want {
                    return Some(format!("capture set {bits:#07b}: {}", describe_diff(&got, &want)));
                }
                if r.out != input {
                    return Some(format!("capture set {bits:#07b}: output != input"));
                }
            }
            // chunkings
            if depth == Depth::L1 {
                for c in 1..input.len() {
                    let r = run_seam(&[&input[..c], &input[c..]], 0b11111, true);
                    count(&r);
                    if !r.res.is_ok() {
                        return Some(format!("cut at {c}: strict run failed ({})", r.res.short()));
                    }
                    let got = normalise_impl(r.toks);
                    if got != w {
                        return Some(format!("cut at {c}: {}", describe_diff(&got, &w)));
                    }
                }
            }
            // public handlers
            let p = public_cfg();
            let rr = run(p, &[input], true);
            if let Some(c) = stats {
                c.exec(rr.results.len());
            }
            if !rr.all_ok() {
                return Some(format!("public-handler run failed: {:?}", rr.first_failure().map(|(_, r)| r.short())));
            }
            let got = events_to_toks(&rr.events);
            let want = filter_kinds(&w, 0b10111);
            let want: Vec<Tok> = want
                .into_iter()
                .map(|t| match t {
                    Tok::Doctype { name, public, system, .. } => Tok::Doctype { name, public, system, fq: None },
                    o => o,
                })
                .collect();
            if got != want {
                return Some(format!("public handlers: {}", describe_diff(&got, &want)));
            }
            None
        }
        CallRes::Err(k, msg) => {
            if *k != ERR_AMBIG {
                return Some(format!("strict run failed with a non-ambiguity error: {msg}"));
            }
            // the refused tag: tokens seen before the failure are a prefix of the non-strict list
            let st = normalise_impl(strict_all.toks.clone());
            let mut n = st.len();
            // the last text token may be partial
            if let Some(Tok::Text(_)) = st.last() {
                n -= 1;
            }
            if st[..n] != lax_toks[..n.min(lax_toks.len())] {
                return Some(format!("tokens before the refusal are not a prefix of the non-strict tokens: {}", describe_diff(&st[..n], &lax_toks)));
            }
            let Some(idx) = (n..lax_toks.len()).find(|&i| matches!(lax_toks[i], Tok::Start { .. })) else {
                return Some("refusal, but the non-strict run has no further start tag".into());
            };
            let Tok::Start { name, .. } = &lax_toks[idx] else { unreachable!() };
            if !msg.contains(&format!("(`<{name}>`)")) {
                return Some(format!("refusal names another tag than the next start tag <{name}>: {}", msg.chars().take(90).collect::<String>()));
            }
            let tags = tag_seq(&lax_toks[..=idx]);
            if let Err(e) = r_guard(&tags) {
                return Some(format!("unjustified strict-mode refusal: {e}"));
            }
            if let Some(m) = must {
                if m + 1 < tags.len() {
                    return Some(format!("late strict-mode refusal: <{}> (tag #{m}) already had to be refused, the run failed only at tag #{}", all_tags[m].0, tags.len() - 1));
                }
            }
            if !input.starts_with(&strict_all.out) {
                return Some("refused run emitted something that is not a prefix of the input".into());
            }
            None
        }
        CallRes::Panic(_) => unreachable!(),
    }
}

fn public_cfg() -> &'static Prepared {
    use std::sync::OnceLock;
    static P: OnceLock<Prepared> = OnceLock::new();
    P.get_or_init(|| {
        let mut hs = vec![HSpec::obs(HKind::Element, "*")];
        hs.extend(doc_all());
        Prepared::new(Cfg::with(hs)).unwrap()
    })
}

fn events_to_toks(evs: &[Ev]) -> Vec<Tok> {
    let mut out = vec![];
    for e in evs {
        match e {
            Ev::El { name, attrs, self_closing, .. } => out.push(Tok::Start {
                name: name.clone(),
                attrs: dedup_attrs(attrs.iter().map(|a| (a.name.clone(), a.value.clone())).collect()),
                sc: *self_closing,
            }),
            Ev::Comment { text, .. } => out.push(Tok::Comment(text.clone())),
            Ev::Doctype { name, public, system, .. } => out.push(Tok::Doctype { name: name.clone(), public: public.clone(), system: system.clone(), fq: None }),
            Ev::Text { text, .. } => push_text(&mut out, text),
            _ => {}
        }
    }
    out
}

// ---------------------------------------------------------------------------------------------
// G: well-nested foreign-content grammar
// ---------------------------------------------------------------------------------------------

#[derive(Clone, Copy, PartialEq, Eq, Hash, Debug)]
enum NT {
    Html,
    HtmlIP,
    SvgC,
    MathC,
    /// content of a MathML annotation-xml without an HTML encoding: text and svg islands
    AnnSvg,
    /// content of an `<svg>` whose parent is a MathML element other than annotation-xml (a MathML
    /// element for WHATWG, an SVG island for the implementation): a reduced menu, so that the
    /// listed finding's as-implemented reading stays a simple rewrite
    FakeSvgC,
}

const CDATA: &str = "<![CDATA[<b>]x]]>";
/// CDATA directly inside an integration point (distinct payload so that it can be located).
const CDATA_IP: &str = "<![CDATA[<b>]y]]>";
/// What the implementation makes of CDATA_IP: a bogus comment up to the first '>' and text.
const CDATA_IP_AS_IMPLEMENTED: &str = "<!--[CDATA[<b-->]y]]>";

/// (document, flags): bit 0 = CDATA directly inside an integration point, bit 1 = an `<svg>` whose
/// parent is a MathML element other than annotation-xml (both are listed findings).
type Doc = (String, u8);
const F_IP_CDATA: u8 = 1;
const F_SVG_IN_MATH: u8 = 2;
/// The offending svg of F_SVG_IN_MATH is written with these spellings so that it can be located.
const SVG_IN_MATH_OPEN: &str = "<svg data-m>";
const SVG_IN_MATH_CLOSE: &str = "</svg\n>";
/// As-implemented reading: a real SVG island, which is what WHATWG makes of an svg child of
/// annotation-xml; the wrapper's own tokens are removed from the reference token list.
const WRAP_OPEN: &str = "<annotation-xml data-w><svg data-m>";
const WRAP_CLOSE: &str = "</svg\n></annotation-xml>";

struct Gen {
    trees: HashMap<(NT, usize), std::rc::Rc<Vec<Doc>>>,
    forests: HashMap<(NT, usize), std::rc::Rc<Vec<Doc>>>,
}

impl Gen {
    fn wrap(&mut self, open: &str, close: &str, nt: NT, size: usize, out: &mut Vec<Doc>) {
        self.wrap_flag(open, close, nt, size, out, 0)
    }

    fn wrap_flag(&mut self, open: &str, close: &str, nt: NT, size: usize, out: &mut Vec<Doc>, flag: u8) {
        if size == 0 {
            return;
        }
        for (inner, f) in self.forest(nt, size - 1).iter() {
            out.push((format!("{open}{inner}{close}"), *f | flag));
        }
    }

    fn tree(&mut self, nt: NT, size: usize) -> std::rc::Rc<Vec<Doc>> {
        if let Some(v) = self.trees.get(&(nt, size)) {
            return v.clone();
        }
        let mut out: Vec<Doc> = vec![];
        match nt {
            NT::Html | NT::HtmlIP => {
                if size == 1 {
                    out.push(("t".into(), 0));
                    if nt == NT::HtmlIP {
                        out.push((CDATA_IP.into(), F_IP_CDATA));
                    }
                }
                self.wrap("<div>", "</div>", NT::Html, size, &mut out);
                self.wrap("<svg>", "</svg>", NT::SvgC, size, &mut out);
                self.wrap("<math>", "</math>", NT::MathC, size, &mut out);
            }
            NT::SvgC => {
                if size == 1 {
                    out.push(("t".into(), 0));
                    out.push(("<path/>".into(), 0));
                    out.push((CDATA.into(), 0));
                }
                self.wrap("<g>", "</g>", NT::SvgC, size, &mut out);
                self.wrap("<foreignObject>", "</foreignObject>", NT::HtmlIP, size, &mut out);
                self.wrap("<title>", "</title>", NT::HtmlIP, size, &mut out);
                self.wrap("<desc>", "</desc>", NT::HtmlIP, size, &mut out);
                // in SVG content `<math>` is just an SVG element with that name
                self.wrap("<math>", "</math>", NT::SvgC, size, &mut out);
            }
            NT::MathC => {
                if size == 1 {
                    out.push(("<mi>t</mi>".into(), 0));
                    out.push((format!("<mi>{CDATA_IP}</mi>"), F_IP_CDATA));
                    out.push((CDATA.into(), 0));
                }
                self.wrap("<mrow>", "</mrow>", NT::MathC, size, &mut out);
                // in MathML content (outside annotation-xml) `<svg>` is just a MathML element with
                // that name; the implementation enters an SVG island (listed finding)
                self.wrap_flag(SVG_IN_MATH_OPEN, SVG_IN_MATH_CLOSE, NT::FakeSvgC, size, &mut out, F_SVG_IN_MATH);
                self.wrap("<annotation-xml encoding=\"text/html\">", "</annotation-xml>", NT::HtmlIP, size, &mut out);
                // an svg element that is a child of annotation-xml starts a real SVG island
                self.wrap("<annotation-xml encoding=\"image/svg+xml\">", "</annotation-xml>", NT::AnnSvg, size, &mut out);
            }
            NT::FakeSvgC => {
                if size == 1 {
                    out.push(("t".into(), 0));
                    out.push(("<mi>t</mi>".into(), 0));
                    out.push(("<path/>".into(), 0));
                    out.push((CDATA.into(), 0));
                }
                self.wrap("<g>", "</g>", NT::FakeSvgC, size, &mut out);
                self.wrap("<title>", "</title>", NT::Html, size, &mut out);
                self.wrap("<mtext>", "</mtext>", NT::Html, size, &mut out);
            }
            NT::AnnSvg => {
                if size == 1 {
                    out.push(("t".into(), 0));
                }
                self.wrap("<svg>", "</svg>", NT::SvgC, size, &mut out);
            }
        }
        let rc = std::rc::Rc::new(out);
        self.trees.insert((nt, size), rc.clone());
        rc
    }

    /// Sequences of trees totalling `size` nodes. Adjacent text leaves are avoided (they would
    /// be one text node), keeping the documents canonical.
    fn forest(&mut self, nt: NT, size: usize) -> std::rc::Rc<Vec<Doc>> {
        if let Some(v) = self.forests.get(&(nt, size)) {
            return v.clone();
        }
        let mut out: Vec<Doc> = vec![];
        if size == 0 {
            out.push((String::new(), 0));
        } else {
            for first in 1..=size {
                let heads = self.tree(nt, first);
                // children after the first one of an integration point are ordinary Html
                let rest_nt = if nt == NT::HtmlIP { NT::HtmlIP } else { nt };
                let tails = self.forest(rest_nt, size - first);
                for (h, hf) in heads.iter() {
                    for (t, tf) in tails.iter() {
                        if h == "t" && t.starts_with('t') {
                            continue;
                        }
                        out.push((format!("{h}{t}"), *hf | *tf));
                    }
                }
            }
        }
        let rc = std::rc::Rc::new(out);
        self.forests.insert((nt, size), rc.clone());
        rc
    }
}

pub fn g_documents(max_nodes: usize) -> Vec<Doc> {
    let mut g = Gen { trees: HashMap::new(), forests: HashMap::new() };
    let mut all = vec![];
    for n in 1..=max_nodes {
        all.extend(g.forest(NT::Html, n).iter().cloned());
    }
    all
}

// ---------------------------------------------------------------------------------------------

pub fn replay(case: &Value) -> Option<String> {
    let input = unhex(case["input_hex"].as_str()?);
    check_input(&input, Depth::L1, None)
}

fn report(ctx: &Ctx, input: &[u8], msg: String, sig: Option<&str>) {
    let inp = input.to_vec();
    let case = json!({"input_hex": hex(input), "input_lossy": lossy(input)});
    let re = move || check_input(&inp, Depth::L1, None);
    match sig {
        Some(s) => ctx.known_or_violation(s, msg, case, &re),
        None => ctx.violation(msg, case, &re),
    }
}

fn soup_sweep(ctx: &Ctx, name: &str, space: Space, depth: Depth) {
    sweep_space(ctx, name, space, &|i, raw| {
        if contains_ci(raw, b"<svg") || contains_ci(raw, b"<math") {
            return;
        }
        if let Some(msg) = check_input(raw, depth, Some(ctx)) {
            // re-check at the depth the replay uses, so that the message is reproducible
            let msg = check_input(raw, Depth::L1, None).unwrap_or(msg);
            report(ctx, raw, msg, None);
        }
        ctx.states.insert(digest(raw));
        if i % 50_023 == 9 {
            ctx.sample(json!({"space": space.label(), "input": lossy(raw)}));
        }
    });
}

/// Documents whose sizes sit just below, at and just above the implementation's thresholds.
fn scaled_sweep(ctx: &Ctx) {
    let docs: Vec<(String, Vec<u8>)> = scaled_docs(ctx.quick()).into_iter().filter(|(_, d)| !contains_ci(d, b"<svg") && !contains_ci(d, b"<math")).collect();
    par_for(docs.len(), 1, |i| {
        if ctx.over_time() {
            return;
        }
        let (label, raw) = &docs[i];
        let depth = if raw.len() <= if ctx.quick() { 300 } else { 5000 } { Depth::L1 } else { Depth::L0 };
        if let Some(msg) = check_input(raw, depth, Some(ctx)) {
            let msg = check_input(raw, Depth::L1, None).unwrap_or(msg);
            report(ctx, raw, msg, None);
        }
        ctx.states.insert(digest(raw));
        if i % 97 == 5 {
            ctx.sample(json!({"space": "scaled documents", "document": label}));
        }
    });
    if !ctx.capped.load(std::sync::atomic::Ordering::Relaxed) {
        ctx.level_done(&format!("{} scaled documents (sizes around 12, 32, 64, 256, 1024, 2048) vs the WHATWG reference, every single cut for documents up to {} bytes", docs.len(), if ctx.quick() { 300 } else { 5000 }));
    }
}

/// Names too long to be hashed (the name hash packs 12 characters of 5 bits) that END in the name of
/// an element with special tokenisation: they are ordinary unknown elements. Every first letter x
/// padding character x total length around the limit.
fn long_name_sweep(ctx: &Ctx) {
    const SPECIAL: &[&str] = &["title", "textarea", "script", "style", "xmp", "plaintext", "iframe", "noembed", "noframes", "select", "template", "frameset", "svg", "math", "p", "br"];
    const PADS: &[char] = &['1', '2', '6', 'a', 'p', 'z'];
    let lens: &[usize] = if ctx.quick() { &[12, 13, 14] } else { &[11, 12, 13, 14, 15, 16, 17, 25] };
    let mut names: Vec<String> = vec![];
    for t in SPECIAL {
        for first in 'a'..='z' {
            for pad in PADS {
                for &len in lens {
                    if len < t.len() + 1 {
                        continue;
                    }
                    names.push(format!("{first}{}{t}", pad.to_string().repeat(len - 1 - t.len())));
                }
            }
        }
    }
    par_for(names.len(), 16, |i| {
        if ctx.over_time() {
            return;
        }
        let n = &names[i];
        for doc in [format!("<{n}><b>x</b></{n}>y"), format!("<select><{n}>x</select>")] {
            if let Some(msg) = check_input(doc.as_bytes(), Depth::L0, Some(ctx)) {
                report(ctx, doc.as_bytes(), msg, None);
            }
            ctx.states.insert(digest(doc.as_bytes()));
        }
        if i % 1009 == 7 {
            ctx.sample(json!({"space": "long names ending in a special element name", "name": n}));
        }
    });
    if !ctx.capped.load(std::sync::atomic::Ordering::Relaxed) {
        ctx.level_done(&format!("{} names of {:?} characters ending in the name of a special element (first letter a..z x 6 padding characters) x 2 documents vs the WHATWG reference", names.len(), lens));
    }
}

fn contains_ci(hay: &[u8], needle: &[u8]) -> bool {
    hay.windows(needle.len()).any(|w| w.eq_ignore_ascii_case(needle))
}

fn ctx_sweep(ctx: &Ctx, name: &str, k: usize, max: usize, depth: Depth) {
    let n = count_upto(k, max);
    par_for(n * CTX_HTML.len(), 32, |j| {
        if ctx.over_time() {
            return;
        }
        let mut idx = vec![];
        let mut raw = vec![];
        seq_at(j / CTX_HTML.len(), k, &mut idx);
        render_frags(F, &idx, &mut raw);
        raw.splice(0..0, CTX_HTML[j % CTX_HTML.len()].bytes());
        if let Some(msg) = check_input(&raw, depth, Some(ctx)) {
            let msg = check_input(&raw, Depth::L1, None).unwrap_or(msg);
            report(ctx, &raw, msg, None);
        }
        ctx.states.insert(digest(&raw));
        if j % 70_001 == 13 {
            ctx.sample(json!({"space": "CTX_HTML x F", "input": lossy(&raw)}));
        }
    });
    if !ctx.capped.load(std::sync::atomic::Ordering::Relaxed) {
        ctx.level_done(name);
    }
}

/// Text-mode (and a few ordinary) elements x every attribute-syntax sequence in the start tag,
/// followed by markup-looking content and the matching end tag.
fn start_tag_syntax_sweep(ctx: &Ctx, name: &str, max_pieces: usize, depth: Depth) {
    const NAMES: &[&str] = &["title", "textarea", "script", "style", "xmp", "plaintext", "noscript", "iframe", "noembed", "noframes", "a", "SCRIPT"];
    const PIECES: &[&str] = &[" ", "a", "=", "\"v\"", "'v'", "v", "/", "\"", "'"];
    let n = count_upto(PIECES.len(), max_pieces);
    par_for(n * NAMES.len(), 16, |j| {
        if ctx.over_time() {
            return;
        }
        let mut idx = vec![];
        seq_at(j / NAMES.len(), PIECES.len(), &mut idx);
        let t = NAMES[j % NAMES.len()];
        let mut doc = format!("<{t}");
        for &i in &idx {
            doc.push_str(PIECES[i]);
        }
        doc.push_str(&format!("><b>x</b><!--c--></{t}><i>y</i>"));
        if let Some(msg) = check_input(doc.as_bytes(), depth, Some(ctx)) {
            let msg = check_input(doc.as_bytes(), Depth::L1, None).unwrap_or(msg);
            report(ctx, doc.as_bytes(), msg, None);
        }
        ctx.states.insert(digest(&doc));
        if j % 5_003 == 1 {
            ctx.sample(json!({"space": "start-tag syntax", "input": doc}));
        }
    });
    if !ctx.capped.load(std::sync::atomic::Ordering::Relaxed) {
        ctx.level_done(name);
    }
}

/// Ambiguity-guard alphabet: select / template / frameset structure x complete text-mode elements
/// (content that looks like markup), so that long guard histories are reached.
const GUARD_FRAGS: &[&str] = &[
    "<select>", "</select>", "<template>", "</template>", "<option>", "x", "<frameset>", "</frameset>", "<input>", "<keygen>",
    "<style><p>x</p></style>", "<script><p>x</p></script>", "<xmp><p></xmp>", "<noframes><p></noframes>", "<title><p></title>",
    "<textarea><p></textarea>", "<p>",
];

/// Histories that leave guard state behind (a select closed by its template's end tag, nested
/// templates, the same inside an integration point), each followed by every guard sequence.
const GUARD_HISTORIES: &[&str] = &[
    "<template><select></template>",
    "<template><template><select></template>",
    "<svg><foreignObject><template><select></template></foreignObject></svg>",
    "<math><mi><template><select></template></mi></math>",
    "<select><template></template></select><template><select><option></template>",
];

fn guard_sweep(ctx: &Ctx, name: &str, max: usize) {
    guard_sweep_with(ctx, name, max, &[""])
}

fn guard_sweep_with(ctx: &Ctx, name: &str, max: usize, prefixes: &[&str]) {
    let k = GUARD_FRAGS.len();
    let n = count_upto(k, max) * prefixes.len();
    par_for(n, 64, |jj| {
        if ctx.over_time() {
            return;
        }
        let j = jj / prefixes.len();
        let mut idx = vec![];
        let mut raw = vec![];
        seq_at(j, k, &mut idx);
        render_frags(GUARD_FRAGS, &idx, &mut raw);
        let mut with_prefix = prefixes[jj % prefixes.len()].as_bytes().to_vec();
        with_prefix.extend_from_slice(&raw);
        let raw = with_prefix;
        if let Some(msg) = check_input(&raw, Depth::L0, Some(ctx)) {
            let msg = check_input(&raw, Depth::L1, None).unwrap_or(msg);
            report(ctx, &raw, msg, None);
        }
        ctx.states.insert(digest(&raw));
        if j % 200_003 == 13 {
            ctx.sample(json!({"space": "guard alphabet", "input": lossy(&raw)}));
        }
    });
    if !ctx.capped.load(std::sync::atomic::Ordering::Relaxed) {
        ctx.level_done(name);
    }
}

fn g_sweep(ctx: &Ctx, name: &str, max_nodes: usize, depth: Depth) {
    let docs = g_documents(max_nodes);
    ctx.set_extra("g_documents", json!(docs.len()));
    par_for(docs.len(), 16, |i| {
        if ctx.over_time() {
            return;
        }
        let (d, flags) = &docs[i];
        if let Some(msg) = check_input(d.as_bytes(), depth, Some(ctx)) {
            let msg = check_input(d.as_bytes(), Depth::L1, None).unwrap_or(msg);
            // signatures of the listed findings: the document has the construct, and reading
            // exactly those constructs the way the implementation does removes every difference
            // (CDATA directly inside an integration point: bogus comment up to the first '>' + text;
            // svg inside MathML outside annotation-xml: a real SVG island)
            let as_cdata = |x: &str| x.replace(CDATA_IP, CDATA_IP_AS_IMPLEMENTED);
            let as_island = |x: &str| x.replace(SVG_IN_MATH_OPEN, WRAP_OPEN).replace(SVG_IN_MATH_CLOSE, WRAP_CLOSE);
            // inside the (wrongly entered) svg island `<mi>` is no integration point for the
            // implementation: only the CDATA sections outside of it are read as bogus comments
            let as_cdata_outside = |x: &str| {
                let mut out = String::new();
                let mut rest = x;
                let mut depth = 0usize;
                while !rest.is_empty() {
                    if let Some(r) = rest.strip_prefix(SVG_IN_MATH_OPEN) {
                        depth += 1;
                        out.push_str(SVG_IN_MATH_OPEN);
                        rest = r;
                    } else if let Some(r) = rest.strip_prefix(SVG_IN_MATH_CLOSE) {
                        depth = depth.saturating_sub(1);
                        out.push_str(SVG_IN_MATH_CLOSE);
                        rest = r;
                    } else if let (0, Some(r)) = (depth, rest.strip_prefix(CDATA_IP)) {
                        out.push_str(CDATA_IP_AS_IMPLEMENTED);
                        rest = r;
                    } else {
                        let c = rest.chars().next().unwrap();
                        out.push(c);
                        rest = &rest[c.len_utf8()..];
                    }
                }
                out
            };
            let agrees = |r: String| check_input_ref(d.as_bytes(), Some(&r), Depth::L1, None).is_none();
            let sig = if flags & F_IP_CDATA != 0 && agrees(as_cdata(d)) {
                Some("cdata-in-integration-point")
            } else if flags & F_SVG_IN_MATH != 0 && (agrees(as_island(d)) || (flags & F_IP_CDATA != 0 && (agrees(as_island(&as_cdata(d))) || agrees(as_island(&as_cdata_outside(d)))))) {
                Some("svg-in-mathml-outside-annotation-xml")
            } else {
                None
            };
            report(ctx, d.as_bytes(), msg, sig);
        }
        ctx.states.insert(digest(d));
        if i % 20_011 == 3 {
            ctx.sample(json!({"space": "G", "input": d}));
        }
    });
    if !ctx.capped.load(std::sync::atomic::Ordering::Relaxed) {
        ctx.level_done(name);
    }
}

pub fn run_check(ctx: &Ctx) -> i32 {
    let k = F.len();
    scaled_sweep(ctx);
    long_name_sweep(ctx);
    if ctx.quick() {
        soup_sweep(ctx, "F<=3 x 7 capture sets x strict{t,f} x L0,L1 + public handlers", Space::Frags { k, max: 3 }, Depth::L1);
        soup_sweep(ctx, "Fcore<=4 x 7 capture sets x strict{t,f} x L0 + public handlers", Space::Frags { k: F_CORE, max: 4 }, Depth::L0);
        ctx_sweep(ctx, "17 HTML contexts x F<=2 x L0,L1", k, 2, Depth::L1);
        ctx_sweep(ctx, "17 HTML contexts x Fcore<=3 x L0", F_CORE, 3, Depth::L0);
        g_sweep(ctx, "G<=6 nodes x L0,L1", 6, Depth::L1);
        start_tag_syntax_sweep(ctx, "12 element names x attribute-syntax pieces<=4 x L0,L1", 4, Depth::L1);
        guard_sweep(ctx, "17-fragment ambiguity-guard alphabet (select/template/frameset structure x complete text-mode elements) <=5 x L0, refusal required AND justified", 5);
        guard_sweep_with(ctx, "5 guard histories (select closed by its template's end tag, nested templates, inside integration points) x guard alphabet <=3 x L0", 3, GUARD_HISTORIES);
    } else {
        soup_sweep(ctx, "F<=3 x 7 capture sets x strict{t,f} x L0,L1 + public handlers", Space::Frags { k, max: 3 }, Depth::L1);
        soup_sweep(ctx, "Fcore<=4 x L0,L1", Space::Frags { k: F_CORE, max: 4 }, Depth::L1);
        soup_sweep(ctx, "F<=4 x L0", Space::Frags { k, max: 4 }, Depth::L0);
        ctx_sweep(ctx, "17 HTML contexts x F<=3 x L0,L1", k, 3, Depth::L1);
        ctx_sweep(ctx, "17 HTML contexts x Fcore<=4 x L0", F_CORE, 4, Depth::L0);
        g_sweep(ctx, "G<=7 nodes x L0,L1", 7, Depth::L1);
        start_tag_syntax_sweep(ctx, "12 element names x attribute-syntax pieces<=5 x L0,L1", 5, Depth::L1);
        guard_sweep(ctx, "17-fragment ambiguity-guard alphabet (select/template/frameset structure x complete text-mode elements) <=6 x L0, refusal required AND justified", 6);
        guard_sweep_with(ctx, "5 guard histories (select closed by its template's end tag, nested templates, inside integration points) x guard alphabet <=4 x L0", 4, GUARD_HISTORIES);
    }
    ctx.finish(
        "model_checking",
        RULE,
        &[
            "html5ever 0.39 (Tokenizer + TreeBuilder over RcDom, scripting enabled) is trusted as the WHATWG reference",
            "alphabet F contains no '&', NUL or CR so text compares exactly (html5ever decodes entities and normalises those)",
            "a refusal must be justified by the loose reading of the contexts (R-guard: any select still syntactically open, any earlier frameset); a refusal is REQUIRED at the first text-mode-switching start tag inside select/template-in-select/after frameset per the documented contexts (html5ever implements the relaxed select parsing, so it cannot show a missing refusal)",
        ],
        true,
    )
}
