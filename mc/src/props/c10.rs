//! C10 Memory limit: input-driven buffers stay within the limit or the call fails.

use crate::alpha::*;
use crate::common::*;
use crate::drive::*;
use crate::explore::*;
use serde_json::{Value, json};

const RULE: &str = "growth inputs (unterminated tag / attribute value / comment / doctype, long tag names, nesting depth d with selectors, stack grow/pop/re-grow histories followed by a buffered token, many chunks) at 13 sizes x handler sets x chunkings (one write, byte-wise, 7-byte and 64-byte chunks) x preallocation {0, min(16,M), M/2} x EVERY limit M from 0 to M0+64 (M0 = first limit under which the run succeeds); plus every F<=k input x schedules x every M in 0..=M0+8. Oracle: each call returns Ok or MemoryLimitExceeded (never a panic); accounted usage (hook) <= M after every successful call; REAL capacity of parsing buffer + open-element stack (hook) <= M after every successful call; bytes_in - bytes_out <= M in pass-through; success is monotone in M with identical output; rewrite_str with the same settings succeeds / fails exactly like one write + end; same (M, config, schedule) twice gives the same result. non-trivial = distinct (case, M) where the call failed with MemoryLimitExceeded";

#[derive(Clone)]
struct Case {
    label: String,
    cfg: Cfg,
    input: Vec<u8>,
    chunk: usize, // 0 = single write
}

fn chunks_of(input: &[u8], size: usize) -> Vec<&[u8]> {
    if size == 0 {
        vec![input]
    } else {
        input.chunks(size).collect()
    }
}

/// One run under limit M and preallocation P; returns (result, message-if-violated).
fn one(base: &Prepared, input: &[u8], chunk: usize, m: usize, pre: usize) -> (RunResult, Option<String>) {
    let p = base.variant(|c| c.mem = Some((m, pre)));
    let chunks = chunks_of(input, chunk);
    let rr = run(&p, &chunks, true);
    if let Some(msg) = rr.panicked() {
        return (rr.clone(), Some(format!("panic under limit {m} (prealloc {pre}): {msg}")));
    }
    // rewrite_str with the same settings is one write + end: it fails under the same limits
    if chunk == 0 && p.cfg.encoding == "UTF-8" {
        if let Ok(text) = std::str::from_utf8(input) {
            let (res, _) = run_rewrite_str(&p, text);
            match (&res, rr.all_ok()) {
                (Ok(out), true) if out.as_bytes() != rr.out.as_slice() => {
                    return (rr.clone(), Some(format!("rewrite_str under limit {m} gives another output than write+end")));
                }
                (Ok(_), false) => return (rr.clone(), Some(format!("rewrite_str succeeds under limit {m} (prealloc {pre}) although write+end with the same settings fails with MemoryLimitExceeded"))),
                (Err((k, msg)), true) => return (rr.clone(), Some(format!("rewrite_str fails under limit {m} (error kind {k}: {msg}) although write+end succeeds"))),
                (Err((k, msg)), false) if *k != ERR_MEM => return (rr.clone(), Some(format!("rewrite_str under limit {m} failed with {msg} instead of MemoryLimitExceeded"))),
                _ => {}
            }
        }
    }
    if let Some((i, r)) = rr.first_failure() {
        if r.err_kind() != Some(ERR_MEM) {
            return (rr.clone(), Some(format!("call #{i} failed with {} instead of MemoryLimitExceeded", r.short())));
        }
    }
    for (i, (usage, max)) in rr.mem_after.iter().enumerate() {
        if *max != m {
            return (rr.clone(), Some(format!("hook reports limit {max}, configured {m}")));
        }
        if *usage > m {
            return (rr.clone(), Some(format!("after successful write #{i} the rewriter accounts for {usage} bytes > limit {m}")));
        }
    }
    for (i, (buf, stack)) in rr.real_after.iter().enumerate() {
        if buf + stack > m {
            return (rr.clone(), Some(format!("after successful write #{i} the real capacity of the parsing buffer ({buf} bytes) plus the open-element stack ({stack} bytes) exceeds the limit {m} (accounted: {})", rr.mem_after[i].0)));
        }
    }
    if base.cfg.handlers.is_empty() {
        let mut bytes_in = 0usize;
        for (i, c) in chunks.iter().enumerate() {
            bytes_in += c.len();
            if i < rr.results.len() && rr.results[i].is_ok() {
                let pending = bytes_in.saturating_sub(rr.out_len_after[i]);
                if pending > m {
                    return (rr.clone(), Some(format!("after successful write #{i}: {pending} bytes of input retained (in {bytes_in}, out {}) > limit {m}", rr.out_len_after[i])));
                }
            }
        }
    }
    (rr, None)
}

/// Sweep every limit from 0 until `slack` values past the first success.
fn sweep_case(ctx: Option<&Ctx>, base: &Prepared, input: &[u8], chunk: usize, pre_mode: u8, slack: usize, cap: usize) -> Option<(String, usize)> {
    let mut first_ok: Option<(usize, Vec<u8>)> = None;
    let mut m = 0usize;
    loop {
        let pre = match pre_mode {
            0 => 0,
            1 => 16.min(m),
            _ => m / 2,
        };
        let (rr, err) = one(base, input, chunk, m, pre);
        if let Some(c) = ctx {
            c.exec(rr.results.len());
            c.validated(1);
            c.states.insert(digest(&(input, chunk, pre_mode, &rr.results.len(), rr.out.len(), rr.all_ok())));
            if !rr.all_ok() {
                c.nontrivial.insert(digest(&(input, chunk, pre_mode, &base.cfg.handlers, m)));
                c.outcomes.insert(digest(&(rr.results.len(), rr.out.len())));
            }
        }
        if let Some(e) = err {
            return Some((e, m));
        }
        if rr.all_ok() {
            match &first_ok {
                None => first_ok = Some((m, rr.out.clone())),
                Some((m0, out0)) => {
                    if *out0 != rr.out {
                        return Some((format!("output under limit {m} differs from the output under limit {m0}"), m));
                    }
                }
            }
        } else if let Some((m0, _)) = &first_ok {
            return Some((format!("run succeeds under limit {m0} but fails under the larger limit {m}"), m));
        }
        // determinism: every 16th limit is run twice
        if m % 16 == 5 {
            let (rr2, _) = one(base, input, chunk, m, pre);
            if rr2.results != rr.results || rr2.out != rr.out {
                return Some((format!("two identical runs under limit {m} differ"), m));
            }
        }
        if let Some((m0, _)) = &first_ok {
            // slack 0 = "up to twice the first sufficient limit" (a growth step that is taken
            // only when the allowance is large enough shows up there)
            let s = if slack == 0 { *m0 + 64 } else { slack };
            if m >= m0 + s {
                return None;
            }
        }
        if m > cap {
            return Some((format!("no limit up to {cap} lets the run succeed"), m));
        }
        m += 1;
    }
}

fn growth_cases(quick: bool) -> Vec<Case> {
    let sizes: Vec<usize> = if quick { vec![1, 2, 3, 5, 8, 13, 21, 34, 55, 89, 144] } else { vec![1, 2, 3, 5, 8, 13, 21, 34, 55, 89, 144, 233, 300, 610, 1100] };
    let el = Cfg::with(vec![HSpec::obs(HKind::Element, "*")]);
    let all = Cfg::with({
        let mut v = doc_all();
        v.push(HSpec::obs(HKind::Element, "*"));
        v
    });
    let none = Cfg::default();
    let sparse = Cfg::with(vec![HSpec::obs(HKind::Element, "zzz")]);
    let mut v = vec![];
    let chunkings: &[usize] = &[0, 1, 7, 64];
    for &n in &sizes {
        let x = "x".repeat(n);
        let shapes: Vec<(&str, String, Vec<&Cfg>)> = vec![
            ("unterminated tag name", format!("<a{x}"), vec![&none, &el, &sparse]),
            ("unterminated attribute value", format!("<a b=\"{x}"), vec![&none, &el]),
            ("unterminated attribute list", format!("<a {}", "b=c ".repeat(n)), vec![&el]),
            ("unterminated comment", format!("p<!--{x}"), vec![&none, &all]),
            ("unterminated doctype", format!("<!DOCTYPE {x}"), vec![&none, &all]),
            ("terminated long tag", format!("<a{x} c=\"{x}\">tail"), vec![&none, &el]),
            ("text then unfinished end tag", format!("{x}</{x}"), vec![&none, &all]),
            ("unterminated script end tag", format!("<script>{x}</scrip"), vec![&none, &all]),
        ];
        for (label, input, cfgs) in shapes {
            for cfg in cfgs {
                for &c in chunkings {
                    v.push(Case { label: format!("{label} n={n}"), cfg: cfg.clone(), input: input.clone().into_bytes(), chunk: c });
                }
            }
        }
    }
    // nesting depth with selectors (open-element bookkeeping)
    let depths: Vec<usize> = if quick { vec![1, 2, 7, 8, 9, 16, 17, 33] } else { vec![1, 2, 7, 8, 9, 16, 17, 32, 33, 64, 65, 129, 200] };
    let sel = Cfg::with(vec![HSpec::obs(HKind::Element, "div"), HSpec::obs(HKind::Element, "div > span")]);
    let sel_text = Cfg::with(vec![HSpec::obs(HKind::Text, "div span"), HSpec::obs_end_tag("div")]);
    for &d in &depths {
        for cfg in [&sel, &sel_text] {
            for &c in &[0usize, 5] {
                v.push(Case { label: format!("nesting depth {d}"), cfg: cfg.clone(), input: format!("{}<span>t</span>{}", "<div>".repeat(d), "</div>".repeat(d / 2)).into_bytes(), chunk: c });
            }
        }
    }
    v
}

/// Open-element stack grown, (partly) popped, re-grown, then a token that has to be buffered:
/// accounting must follow the real capacity through every grow/shrink history. Swept with
/// preallocation 0 only.
fn stack_history_cases(quick: bool) -> Vec<Case> {
    let sel = Cfg::with(vec![HSpec::obs(HKind::Element, "div"), HSpec::obs(HKind::Element, "div > span")]);
    let sel_text = Cfg::with(vec![HSpec::obs(HKind::Text, "div span"), HSpec::obs_end_tag("div")]);
    let mut v = vec![];
    let d1s: &[usize] = if quick { &[9, 17, 33] } else { &[9, 17, 33, 65] };
    let keeps: &[usize] = if quick { &[1, 5, 9, 16] } else { &[0, 1, 5, 8, 9, 12, 16, 17, 20] };
    let d2s: &[usize] = if quick { &[0, 9] } else { &[0, 4, 9, 30] };
    let chunkings: &[usize] = if quick { &[0, 6] } else { &[0, 6, 64] };
    for &d1 in d1s {
        for &keep in keeps {
            if keep >= d1 {
                continue;
            }
            for &d2 in d2s.iter().chain(std::iter::once(&d1)) {
                let tails = [("unfinished matched tag", format!("<div b=\"{}", "x".repeat(40))), ("unfinished matched tag (attribute name)", format!("<div {}", "x".repeat(40))), ("long matched tag", format!("<div b=\"{}\">t", "x".repeat(40)))];
                for (ti, (tl, tail)) in tails.iter().enumerate() {
                    for (ci, cfg) in [&sel, &sel_text].into_iter().enumerate() {
                        if quick && (ti == 2 || ci != ti % 2) {
                            continue;
                        }
                        for &c in chunkings {
                            let input = format!("{}{}{}{}", "<div>".repeat(d1), "</div>".repeat(d1 - keep), "<div>".repeat(d2), tail);
                            v.push(Case { label: format!("stack grown to {d1}, popped to {keep}, re-grown by {d2}, then {tl}"), cfg: cfg.clone(), input: input.into_bytes(), chunk: c });
                        }
                    }
                }
            }
        }
    }
    v
}

pub fn replay(case: &Value) -> Option<String> {
    let cfg: Cfg = serde_json::from_value(case["cfg"].clone()).ok()?;
    let input = unhex(case["input_hex"].as_str()?);
    let chunk = case["chunk"].as_u64()? as usize;
    let pre_mode = case["pre_mode"].as_u64()? as u8;
    let slack = case["slack"].as_u64().unwrap_or(64) as usize;
    let base = Prepared::new(cfg).ok()?;
    sweep_case(None, &base, &input, chunk, pre_mode, slack, 1 << 17).map(|(m, _)| m)
}

fn report(ctx: &Ctx, base: &Prepared, input: &[u8], chunk: usize, pre_mode: u8, slack: usize, msg: String, label: &str) {
    let case = json!({"cfg": base.cfg, "label": label, "slack": slack, "input_hex": hex(input), "input_lossy": lossy(&input[..input.len().min(80)]), "chunk": chunk, "pre_mode": pre_mode});
    let c2 = case.clone();
    ctx.violation_determinism(msg, case, &|| replay(&c2));
}

pub fn run_check(ctx: &Ctx) -> i32 {
    let cases = growth_cases(ctx.quick());
    ctx.set_extra("growth_cases", json!(cases.len()));
    par_for(cases.len() * 3, 1, |j| {
        if ctx.over_time() {
            return;
        }
        let case = &cases[j / 3];
        let pre_mode = (j % 3) as u8;
        let base = Prepared::new(case.cfg.clone()).unwrap();
        if let Some((msg, _)) = sweep_case(Some(ctx), &base, &case.input, case.chunk, pre_mode, 64, 1 << 17) {
            // make the message the replay-stable one
            let msg = sweep_case(None, &base, &case.input, case.chunk, pre_mode, 64, 1 << 17).map(|x| x.0).unwrap_or(msg);
            report(ctx, &base, &case.input, case.chunk, pre_mode, 64, msg, &case.label);
        }
        if j % 211 == 0 {
            ctx.sample(json!({"case": case.label, "config": case.cfg.label(), "chunk_size": case.chunk, "prealloc_mode": pre_mode, "input_len": case.input.len()}));
        }
    });
    if !ctx.capped.load(std::sync::atomic::Ordering::Relaxed) {
        ctx.level_done(&format!("{} growth cases x prealloc{{0,16,M/2}} x every limit 0..M0+64", cases.len()));
    }
    let hcases = stack_history_cases(ctx.quick());
    ctx.set_extra("stack_history_cases", json!(hcases.len()));
    par_for(hcases.len(), 1, |j| {
        if ctx.over_time() {
            return;
        }
        let case = &hcases[j];
        let base = Prepared::new(case.cfg.clone()).unwrap();
        if let Some((msg, _)) = sweep_case(Some(ctx), &base, &case.input, case.chunk, 0, 0, 1 << 17) {
            let msg = sweep_case(None, &base, &case.input, case.chunk, 0, 0, 1 << 17).map(|x| x.0).unwrap_or(msg);
            report(ctx, &base, &case.input, case.chunk, 0, 0, msg, &case.label);
        }
        if j % 17 == 0 {
            ctx.sample(json!({"case": case.label, "config": case.cfg.label(), "chunk_size": case.chunk, "input_len": case.input.len()}));
        }
    });
    if !ctx.capped.load(std::sync::atomic::Ordering::Relaxed) {
        ctx.level_done(&format!("{} stack grow/pop/re-grow histories x every limit 0..2*M0+64", hcases.len()));
    }
    // generic tag-soup part
    let none = Prepared::new(Cfg::default().strict(false)).unwrap();
    let all = Prepared::new(Cfg::with(observer_menu().pop().unwrap().1).strict(false)).unwrap();
    let k = F.len();
    let soup = |name: &str, space: Space, cfgs: &[&Prepared], chunkings: &[usize]| {
        sweep_space(ctx, name, space, &|i, raw| {
            if raw.is_empty() {
                return;
            }
            for base in cfgs {
                for &c in chunkings {
                    if let Some((msg, _)) = sweep_case(Some(ctx), base, raw, c, 0, 8, 1 << 17) {
                        let case = json!({"cfg": base.cfg, "label": "soup", "input_hex": hex(raw), "input_lossy": lossy(raw), "chunk": c, "pre_mode": 0});
                        let (b2, r2) = (base.variant(|_| {}), raw.to_vec());
                        ctx.violation_determinism(msg, case, &|| sweep_case(None, &b2, &r2, c, 0, 8, 1 << 17).map(|x| x.0));
                    }
                }
            }
            if i % 2_003 == 1 {
                ctx.sample(json!({"space": space.label(), "input": lossy(raw)}));
            }
        });
    };
    if ctx.quick() {
        soup("F<=2 x no handlers x chunk sizes {1,3} x every limit 0..M0+8", Space::Frags { k, max: 2 }, &[&none], &[1, 3]);
        soup("F<=1 and 18 contexts x F<=1 x everything-observers x chunk sizes {1,3} x every limit 0..M0+8", Space::CtxFrags { k, max: 1 }, &[&all], &[1, 3]);
    } else {
        soup("F<=3 x no handlers x chunk sizes {1,3} x every limit 0..M0+8", Space::Frags { k, max: 3 }, &[&none], &[1, 3]);
        soup("F<=2 x everything-observers x chunk sizes {1,3,7} x every limit", Space::Frags { k, max: 2 }, &[&all], &[1, 3, 7]);
        soup("18 contexts x F<=2 x {none, everything} x chunk sizes {1,3}", Space::CtxFrags { k, max: 2 }, &[&none, &all], &[1, 3]);
    }
    ctx.finish(
        "fault_enumeration",
        RULE,
        &[
            "memory accounting is observed through the _verif_hooks accessor HtmlRewriter::verif_memory_usage(); real Vec capacities through HtmlRewriter::verif_real_capacity()",
            "preallocation is only swept at values <= M (a preallocation above the limit is a documented misconfiguration guarded by a debug assertion)",
            "the limit is the accounting limit; real allocator failure is not injected",
        ],
        true,
    )
}
