//! C18 Deterministic and isolated instances, also across threads.

use crate::drive::*;
use crate::explore::*;
use lol_html::send::HtmlRewriter as SendRewriter;
use serde_json::{Value, json};
use std::sync::mpsc::{Receiver, Sender, channel};
use std::sync::{Arc, Mutex};

const RULE: &str = "N in {2,3} rewriter instances from a 25-entry menu (plain, selector-heavy, memory-limited, failing, meta-charset, large-buffer, case-variant selectors, documents ending inside svg/math, svg title + CDATA, per-type counters over many equally long custom element names), each a call sequence new, write*, end; EVERY interleaving of their calls (call-granularity scheduler: real OS threads that run only while they hold the baton) x thread assignments {one thread per instance, all on one thread, Send rewriter migrated to another thread after every call}, plus selector parsing on other threads in between; oracle: every instance's observation (sink log, events, results, accounted memory) equals its solo single-thread run; repetition gives identical observations; C API: a thread only ever sees and clears its own last error, in all interleavings of {error, take} on two threads; non-trivial = distinct (instances, interleaving, assignment) where both instances produced output";

#[derive(Clone)]
struct Inst {
    name: &'static str,
    p: &'static Cfg,
    chunks: Vec<Vec<u8>>,
}

/// The configuration is kept unparsed: selectors are parsed on the executing thread as part of
/// the instance's `new` call, so that per-thread parser state (if any) is part of the schedule.
fn leak(cfg: Cfg) -> &'static Cfg {
    Prepared::new(cfg.clone()).expect("menu configuration must be valid");
    Box::leak(Box::new(cfg))
}

fn menu() -> Vec<Inst> {
    let obs = |sel: &str| HSpec::obs(HKind::Element, sel);
    let all = {
        let mut v = crate::common::observer_menu().pop().unwrap().1;
        v.push(HSpec::obs_end_tag("*"));
        v
    };
    let ch = |v: &[&str]| v.iter().map(|s| s.as_bytes().to_vec()).collect::<Vec<_>>();
    let big = format!("<img alt=\"{}", "x".repeat(6000));
    vec![
        Inst { name: "plain", p: leak(Cfg::default()), chunks: ch(&["<a>x</", "a><!--c-->"]) },
        Inst { name: "observers", p: leak(Cfg::with(all.clone())), chunks: ch(&["<a b=c>t<!--", "c--></a>", "<q>"]) },
        Inst { name: "selectors", p: leak(Cfg::with(vec![obs("li.Item"), obs("ul > li:nth-of-type(2)"), obs("[data-kind=\"Promo\"]")]).strict(false)), chunks: ch(&["<ul><li class=Item>1<li class=item data-kind=promo>2", "<li data-kind=Promo>3</ul>"]) },
        Inst { name: "selectors-lowercase", p: leak(Cfg::with(vec![obs("li.item"), obs("ul > li:nth-of-type(2)"), obs("[data-kind=\"promo\"]")]).strict(false)), chunks: ch(&["<ul><li class=Item>1<li class=item data-kind=promo>2", "<li data-kind=Promo>3</ul>"]) },
        Inst { name: "mem-limited", p: leak(Cfg { mem: Some((2048, 1024)), ..Cfg::with(vec![obs("*")]) }), chunks: vec![format!("<p>hi</p><img alt=\"{}", "y".repeat(2000)).into_bytes(), format!("{}\">", "y".repeat(2000)).into_bytes()] },
        Inst { name: "mem-tiny", p: leak(Cfg { mem: Some((100, 0)), ..Cfg::with(vec![obs("*")]) }), chunks: vec![format!("<img alt=\"{}", "z".repeat(50)).into_bytes(), format!("{}\" />", "z".repeat(50)).into_bytes()] },
        Inst { name: "big-buffer", p: leak(Cfg::with(vec![obs("*")])), chunks: vec![big.clone().into_bytes(), b"\">tail".to_vec()] },
        Inst { name: "failing-handler", p: leak(Cfg { fail_at: Some(2), graceful_handler: true, bail_out_handlers: 1, ..Cfg::with(all.clone()) }), chunks: ch(&["<a>x", "</a>y"]) },
        Inst { name: "meta-charset", p: leak(Cfg { adjust_charset: true, ..Cfg::with(vec![HSpec::obs(HKind::DocText, "")]) }), chunks: vec![b"a<meta charset=windows-1251>".to_vec(), vec![b'b', 0xE9, b'<', b'p', b'>']] },
        Inst { name: "strict-ambiguity", p: leak(Cfg::with(vec![obs("*")])), chunks: ch(&["<select><xm", "p>x"]) },
        Inst { name: "sjis", p: leak(Cfg::with(all.clone()).enc("Shift_JIS")), chunks: vec![vec![b'<', b'a', b'>', 0x83], vec![0x41, b'<', b'/', b'a', b'>']] },
        Inst { name: "rewriting", p: leak(Cfg::with(crate::common::marker_menu().remove(4).1).strict(false)), chunks: ch(&["<a k=v><b>", "x</b></a>"]) },
        Inst { name: "deep-nesting", p: leak(Cfg::with(vec![obs("div div"), obs("div:nth-of-type(2)")]).strict(false)), chunks: vec!["<div>".repeat(40).into_bytes(), "</div>".repeat(25).into_bytes(), "<div>".repeat(30).into_bytes()] },
        Inst { name: "ends-inside-svg", p: leak(Cfg::with(all.clone()).strict(false)), chunks: ch(&["<p>a</p><svg><title>in ", "title<b>x"]) },
        Inst { name: "svg-title-cdata", p: leak(Cfg::with(all.clone()).strict(false)), chunks: ch(&["<svg><title>t</title><![CDATA[z]]><a/>", "<desc>d</desc><path/></svg><a/>"]) },
        Inst { name: "ends-inside-svg-g", p: leak(Cfg::with(all.clone()).strict(false)), chunks: ch(&["<p>figure</p><svg viewBox='0 0 1 1'><g><circle r=1>", "t"]) },
        Inst { name: "ends-inside-math-mrow", p: leak(Cfg::with(vec![obs("*")]).strict(false)), chunks: ch(&["<math><mrow><mi>x</mi>", "<mn>1"]) },
        Inst { name: "html-mi-after-foreign", p: leak(Cfg::with(all.clone()).strict(false)), chunks: ch(&["<p>x</mi><![CDATA[y]]><a/>", "z</mn><b/>"]) },
        // the same non-ASCII attribute name looked up / set in documents of different encodings
        // (each handler's last request names the attribute the next rewriter asks for first)
        Inst { name: "attr-lookup-utf8", p: leak(Cfg::with(vec![HSpec::with_ops(HKind::Element, "*", vec![Op::GetAttr("\u{416}".into()), Op::RemoveAttr("\u{44f}".into()), Op::SetAttr("\u{416}".into(), "1".into())])]).strict(false)), chunks: ch(&["<a \u{416}=x \u{44f}=y>", "<b>"]) },
        Inst { name: "attr-lookup-1251", p: leak(Cfg::with(vec![HSpec::with_ops(HKind::Element, "*", vec![Op::GetAttr("\u{416}".into()), Op::RemoveAttr("\u{44f}".into()), Op::SetAttr("\u{416}".into(), "1".into())])]).strict(false).enc("windows-1251")), chunks: vec![vec![b'<', b'a', b' ', 0xC6, b'=', b'x', b' ', 0xFF, b'=', b'y', b'>'], b"<b>".to_vec()] },
        Inst { name: "attr-lookup-1252", p: leak(Cfg::with(vec![HSpec::with_ops(HKind::Element, "*", vec![Op::GetAttr("\u{416}".into()), Op::SetAttr("\u{416}".into(), "1".into())])]).strict(false).enc("windows-1252")), chunks: ch(&["<a k=x>", "<b>"]) },
        Inst { name: "html-title-after-foreign", p: leak(Cfg::with(all.clone()).strict(false)), chunks: ch(&["<title>t</title><![CDATA[x]]><a/>y", "</desc><b/>z</foreignObject><i/>"]) },
        Inst { name: "math-ends-inside", p: leak(Cfg::with(vec![obs("*")]).strict(false)), chunks: ch(&["<math><mi>x</mi><annotation-xml encoding=\"text/html\"><p>", "y"]) },
        Inst {
            name: "typed-counters-long-names",
            p: leak(Cfg::with(vec![obs(":nth-of-type(2)"), obs("div > :first-of-type")]).strict(false)),
            chunks: vec![
                format!("<div>{}", (0..24).map(|i| format!("<x-item-{i:03}>a</x-item-{i:03}>")).collect::<String>()).into_bytes(),
                format!("{}</div>", (0..24).map(|i| format!("<x-item-{:03}>b</x-item-{:03}>", 23 - i, 23 - i)).collect::<String>()).into_bytes(),
            ],
        },
        Inst { name: "esi", p: leak(Cfg { esi: true, ..Cfg::with(vec![obs("esi\\:include")]) }), chunks: ch(&["<esi:include src=a>", "<b>"]) },
    ]
}

type Job = Box<dyn FnOnce() + Send>;

struct Pool {
    txs: Vec<Sender<Job>>,
    done: Receiver<()>,
}

impl Pool {
    fn new(n: usize) -> Pool {
        let (dtx, drx) = channel();
        let mut txs = vec![];
        for _ in 0..n {
            let (tx, rx): (Sender<Job>, Receiver<Job>) = channel();
            let dtx = dtx.clone();
            std::thread::spawn(move || {
                for job in rx {
                    job();
                    let _ = dtx.send(());
                }
            });
            txs.push(tx);
        }
        Pool { txs, done: drx }
    }
    /// Run `job` on thread `t` and wait for it (the baton).
    fn run_on(&self, t: usize, job: Job) {
        self.txs[t].send(job).unwrap();
        self.done.recv().unwrap();
    }
}

struct Live {
    rewriter: Option<SendRewriter<'static, LogSink>>,
    shared: SharedRef,
    rr: RunResult,
    failed: bool,
}

fn step(inst: &Inst, live: &Arc<Mutex<Live>>, k: usize) {
    use std::panic::{AssertUnwindSafe, catch_unwind};
    let mut l = live.lock().unwrap();
    let nwrites = inst.chunks.len();
    let snapshot = |l: &mut Live| {
        let (a, b, c) = {
            let s = l.shared.lock().unwrap();
            (s.out.len(), s.events.len(), s.sink.len())
        };
        l.rr.out_len_after.push(a);
        l.rr.ev_len_after.push(b);
        l.rr.sink_len_after.push(c);
    };
    if k == 0 {
        let shared = l.shared.clone();
        let r = catch_unwind(AssertUnwindSafe(|| {
            let prepared = Prepared::new(inst.p.clone()).expect("valid configuration");
            SendRewriter::new(build_send(&prepared, &shared), LogSink(shared.clone()))
        }));
        match r {
            Ok(rw) => l.rewriter = Some(rw),
            Err(e) => {
                l.rr.results.push(CallRes::Panic(panic_msg(e)));
                l.failed = true;
            }
        }
        return;
    }
    if l.failed {
        return;
    }
    if k <= nwrites {
        let mut rw = l.rewriter.take().unwrap();
        let r = catch_unwind(AssertUnwindSafe(|| rw.write(&inst.chunks[k - 1])));
        let res = match r {
            Ok(Ok(())) => CallRes::Ok,
            Ok(Err(e)) => CallRes::Err(err_code(&e), e.to_string()),
            Err(e) => CallRes::Panic(panic_msg(e)),
        };
        snapshot(&mut l);
        if res.is_ok() {
            let m = rw.verif_memory_usage();
            l.rr.mem_after.push(m);
            l.rewriter = Some(rw);
        } else {
            l.failed = true;
            let _ = catch_unwind(AssertUnwindSafe(move || drop(rw)));
        }
        l.rr.results.push(res);
    } else {
        let rw = l.rewriter.take().unwrap();
        let r = catch_unwind(AssertUnwindSafe(move || rw.end()));
        let res = match r {
            Ok(Ok(())) => CallRes::Ok,
            Ok(Err(e)) => CallRes::Err(err_code(&e), e.to_string()),
            Err(e) => CallRes::Panic(panic_msg(e)),
        };
        snapshot(&mut l);
        l.rr.results.push(res);
    }
}

fn finish(live: &Arc<Mutex<Live>>) -> RunResult {
    let mut l = live.lock().unwrap();
    let s = l.shared.lock().unwrap();
    let mut rr = l.rr.clone();
    rr.sink = s.sink.clone();
    rr.out = s.out.clone();
    rr.events = s.events.clone();
    rr.handler_calls = s.handler_calls;
    drop(s);
    l.rewriter = None;
    rr
}

fn new_live() -> Arc<Mutex<Live>> {
    Arc::new(Mutex::new(Live { rewriter: None, shared: Arc::new(Mutex::new(Shared::default())), rr: RunResult::default(), failed: false }))
}

/// Solo reference: the instance alone, all calls on one fresh thread.
fn solo(inst: &Inst) -> RunResult {
    let inst = inst.clone();
    std::thread::spawn(move || {
        let live = new_live();
        for k in 0..inst.chunks.len() + 2 {
            step(&inst, &live, k);
        }
        finish(&live)
    })
    .join()
    .unwrap()
}

#[derive(Clone, Copy, Debug, PartialEq, Eq, Hash, serde::Serialize, serde::Deserialize)]
enum Assign {
    /// instance i on thread i
    Pinned,
    /// everything on thread 0
    OneThread,
    /// call k of instance i on thread (i + k) % threads: the Send rewriter migrates after every call
    Migrate,
}

fn run_interleaving(pool: &Pool, insts: &[Inst], order: &[usize], assign: Assign, parse_between: bool) -> Vec<RunResult> {
    let lives: Vec<Arc<Mutex<Live>>> = insts.iter().map(|_| new_live()).collect();
    let mut next = vec![0usize; insts.len()];
    let nthreads = pool.txs.len();
    for (pos, &i) in order.iter().enumerate() {
        let k = next[i];
        next[i] += 1;
        let t = match assign {
            Assign::Pinned => i % nthreads,
            Assign::OneThread => 0,
            Assign::Migrate => (i + k) % nthreads,
        };
        let inst = insts[i].clone();
        let live = lives[i].clone();
        pool.run_on(t, Box::new(move || step(&inst, &live, k)));
        if parse_between {
            // concurrent selector parsing on another thread, with case variants of the instances' selectors
            let t2 = (t + 1) % nthreads;
            let which = pos % 4;
            pool.run_on(
                t2,
                Box::new(move || {
                    let s = ["LI.ITEM", "li.iTem > a", "[DATA-KIND=\"PROMO\"]", "div:nth-of-type(2n+1)"][which];
                    let _ = s.parse::<lol_html::Selector>();
                }),
            );
        }
    }
    lives.iter().map(finish).collect()
}

/// All interleavings of sequences of lengths `lens` (as lists of instance indices).
fn interleavings(lens: &[usize]) -> Vec<Vec<usize>> {
    fn go(rem: &mut Vec<usize>, cur: &mut Vec<usize>, out: &mut Vec<Vec<usize>>) {
        if rem.iter().all(|&r| r == 0) {
            out.push(cur.clone());
            return;
        }
        for i in 0..rem.len() {
            if rem[i] > 0 {
                rem[i] -= 1;
                cur.push(i);
                go(rem, cur, out);
                cur.pop();
                rem[i] += 1;
            }
        }
    }
    let mut out = vec![];
    go(&mut lens.to_vec(), &mut vec![], &mut out);
    out
}

fn diff(a: &RunResult, b: &RunResult) -> Option<String> {
    if a.results != b.results {
        return Some(format!("results {:?} vs solo {:?}", a.results.iter().map(|r| r.short()).collect::<Vec<_>>(), b.results.iter().map(|r| r.short()).collect::<Vec<_>>()));
    }
    if a.sink != b.sink {
        return Some(format!("sink log differs: output {:?} vs solo {:?}", lossy(&a.out).chars().take(80).collect::<String>(), lossy(&b.out).chars().take(80).collect::<String>()));
    }
    if a.events != b.events {
        let i = a.events.iter().zip(b.events.iter()).position(|(x, y)| x != y).unwrap_or(a.events.len().min(b.events.len()));
        return Some(format!("events differ at #{i}: {:?} vs solo {:?}", a.events.get(i), b.events.get(i)));
    }
    if a.out_len_after != b.out_len_after || a.mem_after != b.mem_after {
        return Some(format!("per-call output lengths / accounted memory differ: {:?} {:?} vs solo {:?} {:?}", a.out_len_after, a.mem_after, b.out_len_after, b.mem_after));
    }
    None
}

fn check_case(menu: &[Inst], idxs: &[usize], order: &[usize], assign: Assign, parse_between: bool) -> Option<String> {
    let insts: Vec<Inst> = idxs.iter().map(|&i| menu[i].clone()).collect();
    let pool = Pool::new(3);
    let got = run_interleaving(&pool, &insts, order, assign, parse_between);
    for (k, inst) in insts.iter().enumerate() {
        let s = solo(inst);
        if let Some(d) = diff(&got[k], &s) {
            return Some(format!("instance `{}` run together with {:?} ({:?}, order {:?}): {d}", inst.name, insts.iter().map(|i| i.name).collect::<Vec<_>>(), assign, order));
        }
    }
    None
}

pub fn replay(case: &Value) -> Option<String> {
    match case["kind"].as_str()? {
        "interleaving" => {
            let idxs: Vec<usize> = serde_json::from_value(case["instances"].clone()).ok()?;
            let order: Vec<usize> = serde_json::from_value(case["order"].clone()).ok()?;
            let assign: Assign = serde_json::from_value(case["assign"].clone()).ok()?;
            check_case(&menu(), &idxs, &order, assign, case["parse_between"].as_bool()?)
        }
        "last-error" => last_error_check(&serde_json::from_value::<Vec<usize>>(case["order"].clone()).ok()?),
        _ => None,
    }
}

/// C API: steps A0 = error on thread A, A1 = take on A, B0 = different error on B, B1 = take on B.
fn last_error_check(order: &[usize]) -> Option<String> {
    use crate::cdrive::take_last_error;
    let pool = Pool::new(2);
    let log: Arc<Mutex<Vec<(usize, usize, Option<String>)>>> = Arc::new(Mutex::new(vec![]));
    let mut next = [0usize; 2];
    for &t in order {
        let k = next[t];
        next[t] += 1;
        let log = log.clone();
        pool.run_on(
            t,
            Box::new(move || {
                if k == 0 {
                    let bad: &[u8] = if t == 0 { b"a >" } else { b"a + b" };
                    let s = unsafe { lolhtml::selector::lol_html_selector_parse(bad.as_ptr() as *const libc::c_char, bad.len()) };
                    assert!(s.is_null());
                } else {
                    log.lock().unwrap().push((t, k, take_last_error()));
                }
            }),
        );
    }
    let want = ["Dangling combinator in selector.", "Unsupported combinator `+` in selector."];
    for (t, k, e) in log.lock().unwrap().iter() {
        let expect = if *k == 1 { Some(want[*t]) } else { None };
        if e.as_deref() != expect {
            return Some(format!("thread {t}, take #{k} in order {:?}: last error {:?}, expected {:?} (an error recorded on one thread must not be visible to, or cleared by, another)", order, e, expect));
        }
    }
    None
}

pub fn run_check(ctx: &Ctx) -> i32 {
    let quick = ctx.quick();
    let menu = menu();
    let solos: Vec<RunResult> = menu.iter().map(solo).collect();
    // repetition: the same instance twice gives identical observations
    for (i, inst) in menu.iter().enumerate() {
        for _ in 0..12 {
            let again = solo(inst);
            ctx.exec(inst.chunks.len() + 2);
            if let Some(d) = diff(&again, &solos[i]) {
                ctx.violation_determinism(format!("instance `{}` repeated: {d}", inst.name), json!({"kind": "repeat", "instance": i}), &|| None);
                break;
            }
        }
    }
    ctx.level_done(&format!("12 repetitions of each of the {} instances", menu.len()));
    // pairs: every ordered pair of menu entries x every interleaving x assignments
    let n = menu.len();
    let pairs: Vec<(usize, usize)> = (0..n).flat_map(|a| (0..n).map(move |b| (a, b))).collect();
    par_for(pairs.len(), 1, |pi| {
        if ctx.over_time() {
            return;
        }
        let (a, b) = pairs[pi];
        let insts = vec![menu[a].clone(), menu[b].clone()];
        let lens: Vec<usize> = insts.iter().map(|i| i.chunks.len() + 2).collect();
        let orders = interleavings(&lens);
        let pool = Pool::new(3);
        for (oi, order) in orders.iter().enumerate() {
            // quick: every interleaving for Pinned and OneThread; Migrate on every 3rd
            for (ai, assign) in [Assign::OneThread, Assign::Pinned, Assign::Migrate].into_iter().enumerate() {
                let _ = quick;
                let parse_between = (oi + ai) % 2 == 0;
                let got = run_interleaving(&pool, &insts, order, assign, parse_between);
                ctx.exec(order.len());
                ctx.validated(1);
                ctx.states.insert(digest(&(a, b, order, assign)));
                if got.iter().all(|g| !g.out.is_empty()) {
                    ctx.nontrivial.insert(digest(&(a, b, order, assign)));
                }
                for (k, &mi) in [a, b].iter().enumerate() {
                    ctx.outcomes.insert(digest(&(&got[k].out, &got[k].results)));
                    if let Some(d) = diff(&got[k], &solos[mi]) {
                        let msg = format!("instance `{}` run together with `{}` ({:?}, order {:?}): {d}", menu[mi].name, menu[[a, b][1 - k]].name, assign, order);
                        let case = json!({"kind": "interleaving", "instances": [a, b], "order": order, "assign": assign, "parse_between": parse_between});
                        let c2 = case.clone();
                        ctx.violation_determinism(msg, case, &|| replay(&c2));
                        return;
                    }
                }
            }
        }
        if pi % 17 == 0 {
            ctx.sample(json!({"instances": [menu[a].name, menu[b].name], "interleavings": orders.len(), "assignments": 3}));
        }
    });
    ctx.level_done(&format!("{} ordered pairs of instances x all interleavings of their calls x {{one thread, pinned, migrating}} (+ selector parsing on another thread in between)", pairs.len()));
    // triples (reduced menu)
    let tri: Vec<usize> = vec![2, 3, 5, 6];
    let mut triples = vec![];
    for &a in &tri {
        for &b in &tri {
            for &c in &tri {
                if a != b || b != c {
                    triples.push((a, b, c));
                }
            }
        }
    }
    let triples: Vec<_> = if quick { triples.into_iter().step_by(6).collect() } else { triples };
    par_for(triples.len(), 1, |ti| {
        if ctx.over_time() {
            return;
        }
        let (a, b, c) = triples[ti];
        let insts = vec![menu[a].clone(), menu[b].clone(), menu[c].clone()];
        let lens: Vec<usize> = insts.iter().map(|i| i.chunks.len() + 2).collect();
        let orders = interleavings(&lens);
        let pool = Pool::new(3);
        for (oi, order) in orders.iter().enumerate() {
            if quick && oi % 8 != 0 {
                continue;
            }
            let assign = [Assign::OneThread, Assign::Pinned, Assign::Migrate][oi % 3];
            let got = run_interleaving(&pool, &insts, order, assign, false);
            ctx.exec(order.len());
            ctx.validated(1);
            for (k, &mi) in [a, b, c].iter().enumerate() {
                if let Some(d) = diff(&got[k], &solos[mi]) {
                    let msg = format!("instance `{}` in a triple ({:?}, order {:?}): {d}", menu[mi].name, assign, order);
                    let case = json!({"kind": "interleaving", "instances": [a, b, c], "order": order, "assign": assign, "parse_between": false});
                    let c2 = case.clone();
                    ctx.violation_determinism(msg, case, &|| replay(&c2));
                    return;
                }
            }
        }
    });
    ctx.level_done(&format!("{} triples over 4 instances x {} interleavings", triples.len(), if quick { "every 8th of the" } else { "all" }));
    // C API last error per thread
    for order in interleavings(&[2, 2]) {
        ctx.exec(4);
        ctx.validated(1);
        if let Some(msg) = last_error_check(&order) {
            let case = json!({"kind": "last-error", "order": order});
            let c2 = case.clone();
            ctx.violation_determinism(msg, case, &|| replay(&c2));
        }
    }
    ctx.level_done("C API: all 6 interleavings of {error, take_last_error} on two threads");
    ctx.finish(
        "model_checking",
        RULE,
        &[
            "preemption points are API-call boundaries: real OS threads, but only the thread holding the baton runs (a mutant that is only wrong under a mid-call data race is not covered)",
            "determinism is part of the property: a discrepancy that is not reproduced on replay is still reported",
        ],
        true,
    )
}
