//! C04 Selector matching agrees with CSS selector semantics on every document.

use crate::docgen::*;
use crate::drive::*;
use crate::explore::*;
use crate::rmatch::*;
use serde_json::{Value, json};

const RULE: &str = "selector programs from the grammar S (type, *, #id, .class, [attr] with all six operators and i/s flags, :first-child/:nth-child/:first-of-type/:nth-of-type, :not() with simple, compound, list and nested arguments, compounds, child/descendant chains, selector lists; an exhaustive operator x operand x value slice for the attribute matcher; one rewriter with all 88 simple selectors) x every document over a 20-event alphabet (len<=n: nested, mis-nested, stray end tags, void, case variants, duplicate/valueless attributes, foreign self-closing) x {single write, a cut inside every start tag}; each selector is run alone and inside two different groupings; oracle: the set of start tags its element handler ran for == R-match on R-tree; non-trivial = distinct (selector, document) where the expected match set is non-empty";

fn doc_alphabet() -> Vec<DEv> {
    vec![
        DEv::open("a"),
        DEv::open_a("a", " id=i", &[("id", "i")]),
        DEv::open_a("a", " class=\"c d\"", &[("class", "c d")]),
        DEv::open_a("a", " k=v", &[("k", "v")]),
        DEv::open_a("A", " K=V", &[("K", "V")]),
        DEv::open_a("a", " k=v-x k=w", &[("k", "v-x"), ("k", "w")]),
        DEv::open_a("a", " k", &[("k", "")]),
        DEv::open("q"),
        DEv::open_a("q", " class=c id=i", &[("class", "c"), ("id", "i")]),
        DEv::open("br"),
        DEv::open("input"),
        DEv::open("svg"),
        DEv::open_slash("path"),
        DEv::open_slash("a"),
        DEv::open_a("x-long-custom-element", " k=\"v w\"", &[("k", "v w")]),
        // a legacy HTML attribute name (its values compare case-insensitively on HTML elements,
        // case-sensitively on foreign elements)
        DEv::open_a("a", " type=TEXT", &[("type", "TEXT")]),
        DEv::close("a"),
        DEv::close("q"),
        DEv::close("svg"),
        DEv::close("A"),
        DEv::Text("t".into()),
    ]
}

/// A smaller alphabet for the slices with large selector pools.
fn doc_alphabet_reduced() -> Vec<DEv> {
    vec![
        DEv::open("a"),
        DEv::open_a("a", " class=\"c d\"", &[("class", "c d")]),
        DEv::open_a("a", " k=v", &[("k", "v")]),
        DEv::open("q"),
        DEv::open_a("q", " class=c id=i", &[("class", "c"), ("id", "i")]),
        DEv::open("br"),
        DEv::open("svg"),
        DEv::open_slash("a"),
        DEv::close("a"),
        DEv::close("q"),
        DEv::close("svg"),
    ]
}

fn ty(s: &str) -> Simple {
    Simple::Type(s.into())
}
fn attr(name: &str, op: AttrOp, value: &str, case: Case) -> Simple {
    Simple::Attr { name: name.into(), op, value: value.into(), case }
}
fn not1(s: Simple) -> Simple {
    Simple::Not(vec![Compound::one(s)])
}

fn simples_full() -> Vec<Simple> {
    let mut v = vec![
        ty("a"), ty("q"), ty("A"), ty("x-long-custom-element"), ty("path"), ty("br"), Simple::Universal,
        Simple::Id("i".into()), Simple::Id("I".into()), Simple::Class("c".into()), Simple::Class("d".into()), Simple::Class("C".into()),
        Simple::AttrExists("k".into()), Simple::AttrExists("K".into()), Simple::AttrExists("id".into()),
        attr("k", AttrOp::Eq, "v", Case::Default), attr("k", AttrOp::Eq, "V", Case::Default), attr("k", AttrOp::Eq, "V", Case::I),
        attr("k", AttrOp::Eq, "v", Case::S), attr("K", AttrOp::Eq, "V", Case::S), attr("k", AttrOp::Eq, "w", Case::Default),
        attr("k", AttrOp::Eq, "", Case::Default),
        attr("type", AttrOp::Eq, "text", Case::Default), attr("type", AttrOp::Prefix, "te", Case::Default), attr("type", AttrOp::Eq, "text", Case::S),
        attr("class", AttrOp::Includes, "c", Case::Default), attr("class", AttrOp::Includes, "D", Case::I), attr("k", AttrOp::Includes, "w", Case::Default),
        attr("k", AttrOp::Dash, "v", Case::Default), attr("k", AttrOp::Dash, "V", Case::I),
        attr("k", AttrOp::Prefix, "v", Case::Default), attr("class", AttrOp::Prefix, "c ", Case::Default),
        attr("k", AttrOp::Suffix, "x", Case::Default), attr("k", AttrOp::Suffix, "W", Case::I),
        attr("k", AttrOp::Substr, "-", Case::Default), attr("class", AttrOp::Substr, " ", Case::Default), attr("k", AttrOp::Substr, "", Case::Default),
        Simple::FirstChild, Simple::NthChild(2, 1), Simple::NthChild(-1, 2), Simple::NthChild(0, 2), Simple::NthChild(2, 0), Simple::NthChild(1, 2),
        Simple::FirstOfType, Simple::NthOfType(2, 0), Simple::NthOfType(0, 2), Simple::NthOfType(-1, 1),
    ];
    let base: Vec<Simple> = v.clone();
    for s in base {
        v.push(not1(s));
    }
    v
}

fn simples_core() -> Vec<Simple> {
    vec![
        ty("a"), ty("q"), Simple::Universal, Simple::Id("i".into()), Simple::Class("c".into()), Simple::AttrExists("k".into()),
        attr("k", AttrOp::Eq, "v", Case::Default), Simple::FirstChild, Simple::NthChild(2, 0), Simple::FirstOfType, Simple::NthOfType(0, 2),
        not1(ty("a")), not1(Simple::Class("c".into())), not1(Simple::FirstChild),
    ]
}

fn simples_small() -> Vec<Simple> {
    vec![ty("a"), ty("q"), Simple::Universal, Simple::Class("c".into()), Simple::NthChild(0, 2), not1(ty("a"))]
}

fn not_specials() -> Vec<SelList> {
    let c = |v: Vec<Simple>| Compound(v);
    let s = |x: Simple| SelList::one(Complex::single(Compound::one(x)));
    let cls = || Simple::Class("c".into());
    vec![
        s(Simple::Not(vec![c(vec![ty("a"), cls()])])),
        s(Simple::Not(vec![c(vec![ty("a")]), c(vec![cls()])])),
        s(Simple::Not(vec![c(vec![ty("a"), Simple::AttrExists("k".into())])])),
        s(Simple::Not(vec![c(vec![Simple::Not(vec![c(vec![ty("a"), cls()])])])])),
        s(Simple::Not(vec![c(vec![Simple::Not(vec![c(vec![ty("a")]), c(vec![cls()])])])])),
        s(Simple::Not(vec![c(vec![Simple::Not(vec![c(vec![ty("a")])])])])),
        SelList::one(Complex::single(c(vec![ty("a"), Simple::Not(vec![c(vec![cls()]), c(vec![Simple::Id("i".into())])])]))),
        SelList::one(Complex::single(c(vec![not1(ty("a")), not1(cls())]))),
        SelList::one(Complex::single(c(vec![ty("q"), Simple::Not(vec![c(vec![cls(), Simple::Id("i".into())])])]))),
        SelList::one(Complex { compounds: vec![c(vec![Simple::Not(vec![c(vec![ty("q"), cls()])])]), c(vec![ty("a")])], combs: vec![Comb::Child] }),
    ]
}

struct Job {
    sels: Vec<SelList>,
    strs: Vec<String>,
}

fn make_cfg(strs: &[String]) -> Result<Prepared, String> {
    Prepared::new(Cfg::with(strs.iter().map(|s| HSpec::obs(HKind::Element, s)).collect()).strict(false))
}

fn expected(sel: &SelList, tree: &Tree, r: &Rendered, mode: NotMode) -> Vec<usize> {
    let mut v: Vec<usize> = (0..tree.nodes.len()).filter(|&i| list_matches(sel, tree, i, mode)).map(|i| r.spans[tree.nodes[i].ev].0).collect();
    v.sort();
    v
}

fn cuts_in_start_tags(evs: &[DEv], r: &Rendered) -> Vec<usize> {
    evs.iter().zip(&r.spans).filter(|(e, _)| matches!(e, DEv::Open { .. })).map(|(_, s)| s.0 + 2).collect()
}

/// Check one group of selectors on one document. Returns failures: (selector index, message, known).
fn check_group(p: &Prepared, sels: &[SelList], evs: &[DEv], cut: bool, nontrivial: Option<(&Ctx, &[String])>) -> (Vec<(usize, String, bool)>, usize) {
    let r = render(evs);
    let tree = build_tree(evs);
    check_group_on(p, sels, evs, &r, &tree, cut, nontrivial)
}

fn check_group_on(p: &Prepared, sels: &[SelList], evs: &[DEv], r: &Rendered, tree: &Tree, cut: bool, nontrivial: Option<(&Ctx, &[String])>) -> (Vec<(usize, String, bool)>, usize) {
    let cuts = if cut { cuts_in_start_tags(evs, r) } else { vec![] };
    let chunks = split(&r.bytes, &cuts);
    let rr = run(p, &chunks, true);
    let mut fails = vec![];
    if !rr.all_ok() {
        fails.push((0, format!("run failed: {:?}", rr.first_failure().map(|(_, r)| r.short())), false));
        return (fails, rr.results.len());
    }
    let mut got: Vec<Vec<usize>> = vec![vec![]; sels.len()];
    for e in &rr.events {
        if let Ev::El { reg, loc, .. } = e {
            got[*reg as usize].push(loc.0);
        }
    }
    for (i, sel) in sels.iter().enumerate() {
        got[i].sort();
        let want = expected(sel, tree, r, NotMode::Css);
        if let Some((ctx, strs)) = nontrivial {
            if !want.is_empty() {
                ctx.nontrivial.insert(digest(&(&strs[i], &r.bytes)));
            }
        }
        if got[i] != want {
            let known = has_nontrivial_not(sel) && got[i] == expected(sel, tree, r, NotMode::Flattened);
            fails.push((
                i,
                format!(
                    "selector `{}` on `{}`{}: handler ran for start tags at {:?}, CSS semantics give {:?}",
                    sel.render(), lossy(&r.bytes), if cut { " (cut inside every start tag)" } else { "" }, got[i], want
                ),
                known,
            ));
        }
    }
    (fails, rr.results.len())
}

pub fn replay(case: &Value) -> Option<String> {
    let sels: Vec<SelList> = serde_json::from_value(case["selectors"].clone()).ok()?;
    let evs: Vec<DEv> = serde_json::from_value(case["doc"].clone()).ok()?;
    let cut = case["cut"].as_bool()?;
    let idx = case["index"].as_u64()? as usize;
    let strs: Vec<String> = sels.iter().map(|s| s.render()).collect();
    let p = make_cfg(&strs).ok()?;
    check_group(&p, &sels, &evs, cut, None).0.into_iter().find(|(i, _, _)| *i == idx).map(|(_, m, _)| m)
}

fn docs_upto(alpha: &[DEv], max: usize) -> usize {
    crate::alpha::count_upto(alpha.len(), max)
}

fn doc_at(alpha: &[DEv], i: usize) -> Vec<DEv> {
    let mut idx = vec![];
    crate::alpha::seq_at(i, alpha.len(), &mut idx);
    idx.iter().map(|&k| alpha[k].clone()).collect()
}

/// Run every group of `groups` on every document of the alphabet.
fn slice(ctx: &Ctx, name: &str, alpha: &[DEv], max_len: usize, groups: &[Job], with_cut: bool) {
    let prepared: Vec<Prepared> = groups
        .iter()
        .map(|g| make_cfg(&g.strs).unwrap_or_else(|e| panic!("selector group does not parse: {e} {:?}", g.strs)))
        .collect();
    let n = docs_upto(alpha, max_len);
    par_for(n, 8, |di| {
        if ctx.over_time() {
            return;
        }
        let evs = doc_at(alpha, di);
        let tree = build_tree(&evs);
        if !tree.in_domain {
            return;
        }
        let r = render(&evs);
        for (g, p) in groups.iter().zip(&prepared) {
            for cut in [false, true] {
                if cut && !with_cut {
                    continue;
                }
                let (fails, calls) = check_group_on(p, &g.sels, &evs, &r, &tree, cut, if cut { None } else { Some((ctx, &g.strs)) });
                ctx.exec(calls);
                ctx.validated(g.sels.len() as u64);
                for (i, msg, known) in fails {
                    let case = json!({"selectors": g.sels, "selector_strings": g.strs, "doc": evs, "cut": cut, "index": i});
                    let c2 = case.clone();
                    if known {
                        ctx.known_or_violation("not-compound-flattened", msg, case, &|| replay(&c2));
                    } else {
                        ctx.violation(msg, case, &|| replay(&c2));
                    }
                }
            }
        }
        ctx.states.insert(digest(&r.bytes));
        ctx.outcomes.insert(digest(&(tree.nodes.len(), tree.nodes.iter().map(|n| (n.parent, n.child_index, n.type_index)).collect::<Vec<_>>())));
        if di % 30_011 == 17 {
            ctx.sample(json!({"slice": name, "document": lossy(&r.bytes), "selectors_in_first_group": groups[0].strs.iter().take(6).collect::<Vec<_>>()}));
        }
    });
    if !ctx.capped.load(std::sync::atomic::Ordering::Relaxed) {
        ctx.level_done(name);
    }
}

fn jobs_from(sels: Vec<SelList>, group_size: usize, stride: bool) -> Vec<Job> {
    let n = sels.len();
    let ngroups = n.div_ceil(group_size);
    let mut groups: Vec<Vec<SelList>> = vec![vec![]; ngroups];
    for (i, s) in sels.into_iter().enumerate() {
        let g = if stride { i % ngroups } else { i / group_size };
        groups[g].push(s);
    }
    groups.into_iter().filter(|g| !g.is_empty()).map(|g| Job { strs: g.iter().map(|s| s.render()).collect(), sels: g }).collect()
}

fn simple_lists(v: Vec<Simple>) -> Vec<SelList> {
    v.into_iter().map(|s| SelList::one(Complex::single(Compound::one(s)))).collect()
}

fn compounds2(core: &[Simple]) -> Vec<SelList> {
    let mut v = vec![];
    for i in 0..core.len() {
        for j in i + 1..core.len() {
            // two type selectors cannot be combined
            let types = [&core[i], &core[j]].iter().filter(|s| matches!(s, Simple::Type(_) | Simple::Universal)).count();
            if types == 2 {
                continue;
            }
            v.push(SelList::one(Complex::single(Compound(vec![core[i].clone(), core[j].clone()]))));
        }
    }
    v
}

fn chains(core: &[Simple], len: usize) -> Vec<SelList> {
    let mut v = vec![];
    let k = core.len();
    let total = k.pow(len as u32);
    for i in 0..total {
        let mut idx = i;
        let comps: Vec<Compound> = (0..len)
            .map(|_| {
                let c = Compound::one(core[idx % k].clone());
                idx /= k;
                c
            })
            .collect();
        for cm in 0..(1 << (len - 1)) {
            let combs: Vec<Comb> = (0..len - 1).map(|b| if cm & (1 << b) != 0 { Comb::Child } else { Comb::Descendant }).collect();
            v.push(SelList::one(Complex { compounds: comps.clone(), combs }));
        }
    }
    v
}

/// Documents beyond a handful of nodes: sibling counts, nesting depths, name lengths and attribute
/// counts just below, at and above the implementation's thresholds (32/64-entry sets, the
/// 12-character name hash, stack growth steps), all matched by one selector program.
fn scaled_slice(ctx: &Ctx) {
    let open = |name: &str, attrs: &[(String, String)]| {
        let raw: String = attrs.iter().map(|(k, v)| if v.contains(' ') || v.is_empty() { format!(" {k}=\"{v}\"") } else { format!(" {k}={v}") }).collect();
        DEv::Open { name: name.into(), attrs: AttrSet { raw, parsed: attrs.to_vec() }, slash: false }
    };
    let kv = |k: &str, v: &str| (k.to_string(), v.to_string());
    let mut docs: Vec<(String, Vec<DEv>)> = vec![];
    let counts: &[usize] = if ctx.quick() { &[31, 32, 33, 64, 65, 130] } else { &[7, 8, 9, 15, 16, 17, 31, 32, 33, 63, 64, 65, 127, 128, 129, 257, 600] };
    for &n in counts {
        // siblings
        let mut d = vec![DEv::open("q")];
        for i in 0..n {
            d.push(open(if i % 5 == 4 { "q" } else { "a" }, &[kv("class", &format!("c{} d", i % 3))]));
            d.push(DEv::close(if i % 5 == 4 { "q" } else { "a" }));
        }
        d.push(DEv::close("q"));
        docs.push((format!("{n} siblings"), d));
        // nesting
        let mut d = vec![];
        for _ in 0..n {
            d.push(DEv::open("a"));
        }
        d.push(open("q", &[kv("class", "c"), kv("id", "i")]));
        d.push(DEv::close("q"));
        d.push(open("a", &[kv("k", "v")]));
        for _ in 0..n / 2 {
            d.push(DEv::close("a"));
        }
        d.push(open("q", &[kv("class", "c1")]));
        docs.push((format!("nesting depth {n}"), d));
        // attributes
        let mut at: Vec<(String, String)> = (0..n).map(|i| kv(&format!("k{i}"), "v")).collect();
        at.push(kv("id", "i"));
        at.push(kv("class", &(0..n).map(|i| format!("c{i}")).collect::<Vec<_>>().join(" ")));
        docs.push((format!("{n} attributes and classes"), vec![open("a", &at), DEv::close("a")]));
        // long value with the interesting part at the end, whitespace runs
        docs.push((format!("attribute value of {n}+ bytes"), vec![open("a", &[kv("k", &format!("v{}   w", "x".repeat(n)))]), DEv::close("a"), open("a", &[kv("k", &format!("{}-x", "v".repeat(n)))])]));
    }
    for n in [11usize, 12, 13, 14, 20] {
        let name = "x".repeat(n);
        docs.push((format!("names of {n} characters"), vec![open(&name, &[kv(&"k".repeat(n), "v"), kv("class", "c1")]), DEv::open("a"), DEv::close(&name), open(&format!("{}y", "x".repeat(n - 1)), &[kv(&format!("{}j", "k".repeat(n - 1)), "v")])]));
    }
    let one = |v: Vec<Simple>| SelList::one(Complex::single(Compound(v)));
    let chain = |cs: Vec<Vec<Simple>>, combs: Vec<Comb>| SelList::one(Complex { compounds: cs.into_iter().map(Compound).collect(), combs });
    let mut sels: Vec<SelList> = vec![
        one(vec![ty("a"), Simple::NthChild(0, 32)]), one(vec![ty("a"), Simple::NthChild(0, 33)]), one(vec![Simple::NthChild(2, 1)]), one(vec![Simple::NthChild(0, 64)]),
        one(vec![ty("a"), Simple::NthOfType(0, 65)]), one(vec![ty("q"), Simple::NthOfType(3, 2)]), one(vec![Simple::NthOfType(0, 33)]), one(vec![Simple::NthChild(0, 129)]),
        one(vec![Simple::Class("c1".into())]), one(vec![Simple::Class("d".into()), Simple::NthChild(0, 33)]), one(vec![Simple::FirstOfType]),
        chain(vec![vec![ty("q")], vec![ty("a"), Simple::Class("c2".into())]], vec![Comb::Descendant]), chain(vec![vec![ty("q")], vec![ty("a")]], vec![Comb::Child]),
        chain(vec![vec![ty("a")], vec![ty("a")], vec![ty("a")], vec![ty("q")]], vec![Comb::Descendant, Comb::Descendant, Comb::Descendant]),
        chain(vec![vec![ty("a")], vec![ty("q"), Simple::Class("c".into())]], vec![Comb::Child]), chain(vec![vec![ty("a")], vec![ty("q"), Simple::Id("i".into())]], vec![Comb::Descendant]),
        chain(vec![vec![ty("a"), Simple::AttrExists("k".into())], vec![ty("q")]], vec![Comb::Descendant]),
        one(vec![Simple::Id("i".into())]), one(vec![not1(Simple::Class("c1".into()))]), one(vec![Simple::Universal]),
        one(vec![attr("k", AttrOp::Includes, "w", Case::Default)]), one(vec![attr("k", AttrOp::Prefix, "vx", Case::Default)]), one(vec![attr("k", AttrOp::Suffix, "  w", Case::Default)]),
        one(vec![attr("k", AttrOp::Substr, "x   ", Case::Default)]), one(vec![attr("k", AttrOp::Dash, &"v".repeat(33), Case::Default)]), one(vec![attr("k", AttrOp::Dash, &"v".repeat(64), Case::Default)]),
    ];
    for n in [30usize, 31, 32, 33, 63, 64, 65, 129] {
        sels.push(one(vec![Simple::Class(format!("c{n}"))]));
        sels.push(one(vec![Simple::AttrExists(format!("k{n}"))]));
        sels.push(one(vec![attr("class", AttrOp::Includes, &format!("c{n}"), Case::Default)]));
    }
    for n in [11usize, 12, 13, 14, 20] {
        sels.push(one(vec![ty(&"x".repeat(n))]));
        sels.push(one(vec![Simple::AttrExists("k".repeat(n))]));
        sels.push(chain(vec![vec![ty(&"x".repeat(n))], vec![ty("a")]], vec![Comb::Child]));
    }
    // more than 64 and more than 96 match ids, many of them matching the same element
    for n in 0..72usize {
        sels.push(one(vec![Simple::Class(format!("c{}", (n * 7) % 100))]));
    }
    let strs: Vec<String> = sels.iter().map(|s| s.render()).collect();
    let p = make_cfg(&strs).unwrap_or_else(|e| panic!("scaled selector group does not parse: {e}"));
    par_for(docs.len(), 1, |di| {
        if ctx.over_time() {
            return;
        }
        let (label, evs) = &docs[di];
        let tree = build_tree(evs);
        if !tree.in_domain {
            return;
        }
        let r = render(evs);
        for cut in [false, true] {
            let (fails, calls) = check_group_on(&p, &sels, evs, &r, &tree, cut, if cut { None } else { Some((ctx, &strs)) });
            ctx.exec(calls);
            ctx.validated(sels.len() as u64);
            for (i, msg, known) in fails {
                let case = json!({"selectors": sels, "selector_strings": strs, "document": label, "doc": evs, "cut": cut, "index": i});
                let c2 = case.clone();
                if known {
                    ctx.known_or_violation("not-compound-flattened", msg, case, &|| replay(&c2));
                } else {
                    ctx.violation(msg, case, &|| replay(&c2));
                }
            }
        }
        ctx.states.insert(digest(&r.bytes));
        if di % 13 == 1 {
            ctx.sample(json!({"slice": "scaled documents", "document": label}));
        }
    });
    if !ctx.capped.load(std::sync::atomic::Ordering::Relaxed) {
        ctx.level_done(&format!("{} scaled documents (sibling counts, nesting depths, attribute / class counts, value and name lengths around 12, 32, 64, 128) x one program of {} selectors (match ids in three word classes of the match set) x {{one write, cut inside every start tag}}", docs.len(), sels.len()));
    }
}

pub fn run_check(ctx: &Ctx) -> i32 {
    scaled_slice(ctx);
    let full = doc_alphabet();
    let red = doc_alphabet_reduced();
    let s1 = simple_lists(simples_full());
    ctx.set_extra("simple_selectors", json!(s1.len()));
    let quick = ctx.quick();
    // (1) every simple selector, alone and all together
    slice(ctx, &format!("(1a) {} simple selectors, each alone x D<={}", s1.len(), if quick { 3 } else { 4 }), &full, if quick { 3 } else { 4 }, &jobs_from(s1.clone(), 1, false), true);
    slice(ctx, &format!("(1b) {} simple selectors in groups of 30 (two groupings) x D<={}", s1.len(), if quick { 4 } else { 5 }), &full, if quick { 4 } else { 5 }, &[jobs_from(s1.clone(), 30, false), jobs_from(s1.clone(), 30, true)].into_iter().flatten().collect::<Vec<_>>(), true);
    // (2) 2-compounds
    let c2 = compounds2(&simples_core());
    slice(ctx, &format!("(2) {} two-simple compounds in groups of 25 x D<={}", c2.len(), if quick { 3 } else { 4 }), &full, if quick { 3 } else { 4 }, &jobs_from(c2.clone(), 25, true), true);
    // (2b) compounds that repeat a simple selector (.c.c, [k][k], :not(a):not(a)) registered BEFORE
    // compounds of the same length that contain their members (.c.d ...): predicates must not merge
    {
        let cls = |x: &str| Simple::Class(x.into());
        let rep: Vec<Vec<Simple>> = vec![
            vec![cls("c"), cls("c")], vec![cls("c"), cls("d")], vec![cls("d"), cls("c")], vec![cls("d"), cls("d")],
            vec![Simple::AttrExists("k".into()), Simple::AttrExists("k".into())], vec![Simple::AttrExists("k".into()), Simple::AttrExists("id".into())],
            vec![not1(ty("a")), not1(ty("a"))], vec![not1(ty("a")), not1(cls("c"))],
            vec![Simple::Id("i".into()), Simple::Id("i".into())], vec![Simple::Id("i".into()), cls("c")],
        ];
        let sels: Vec<SelList> = rep.into_iter().map(|v| SelList::one(Complex::single(Compound(v)))).collect();
        let mut rev = sels.clone();
        rev.reverse();
        let jobs: Vec<Job> = [sels, rev].into_iter().map(|g| Job { strs: g.iter().map(|s| s.render()).collect(), sels: g }).collect();
        slice(ctx, "(2b) 10 compounds with repeated / shared simple selectors in one rewriter, both registration orders x D<=3", &full, 3, &jobs, false);
    }
    // (2c) the same selector registered several times in one rewriter (also as members of selector
    // lists): every registration gets every match
    {
        let one = |x: Simple| Complex::single(Compound::one(x));
        let chain = |a: Simple, comb: Comb, b: Simple| Complex { compounds: vec![Compound::one(a), Compound::one(b)], combs: vec![comb] };
        let g: Vec<SelList> = vec![
            SelList::one(one(ty("a"))), SelList::one(one(ty("a"))), SelList::one(one(Simple::Class("c".into()))), SelList::one(one(Simple::Class("c".into()))),
            SelList::one(chain(ty("q"), Comb::Descendant, ty("a"))), SelList::one(chain(ty("q"), Comb::Descendant, ty("a"))), SelList::one(chain(ty("q"), Comb::Child, ty("a"))),
            SelList(vec![one(ty("a")), one(ty("a"))]), SelList(vec![one(ty("a")), chain(ty("q"), Comb::Descendant, ty("a")), one(Simple::Class("c".into()))]),
            SelList::one(one(ty("a"))), SelList::one(one(Simple::AttrExists("k".into()))), SelList::one(one(Simple::AttrExists("k".into()))),
        ];
        let job = Job { strs: g.iter().map(|s| s.render()).collect(), sels: g };
        slice(ctx, "(2c) 12 registrations with repeated selectors and overlapping selector lists in one rewriter x D<=4", &full, 4, &[job], true);
    }
    // (3) complex selectors of 2 compounds
    let ch2 = chains(&simples_core(), 2);
    slice(ctx, &format!("(3) {} two-compound chains (child/descendant) in groups of 40 x Dred<={}", ch2.len(), 4), &red, 4, &jobs_from(ch2.clone(), 40, true), quick == false);
    // (4) 3-compound chains
    let ch3 = chains(&simples_small(), 3);
    slice(ctx, &format!("(4) {} three-compound chains in groups of 48 x Dred<={}", ch3.len(), if quick { 4 } else { 5 }), &red, if quick { 4 } else { 5 }, &jobs_from(ch3.clone(), 48, true), false);
    // (5) :not() with compound / list / nested arguments, selector lists and pairs
    let mut specials = not_specials();
    // selector lists from the core
    let core = simple_lists(simples_core());
    for i in 0..core.len() {
        for j in i + 1..core.len() {
            specials.push(SelList(vec![core[i].0[0].clone(), core[j].0[0].clone()]));
        }
    }
    slice(ctx, &format!("(5a) {} :not()-argument shapes and selector lists, alone x D<={}", specials.len(), 3), &full, 3, &jobs_from(specials.clone(), 1, false), false);
    slice(ctx, &format!("(5b) the same in groups of 20 x D<={}", 4), &full, 4, &jobs_from(specials.clone(), 20, true), true);
    // every pair from a mixed pool (prefix sharing, attribute / non-attribute mixes)
    let mut pool: Vec<SelList> = vec![];
    pool.extend(ch2.iter().step_by(9).take(12).cloned());
    pool.extend(c2.iter().step_by(5).take(8).cloned());
    pool.extend(ch3.iter().step_by(37).take(6).cloned());
    pool.extend(s1.iter().step_by(7).take(8).cloned());
    let mut pairs = vec![];
    for i in 0..pool.len() {
        for j in i + 1..pool.len() {
            let g = vec![pool[i].clone(), pool[j].clone()];
            pairs.push(Job { strs: g.iter().map(|s| s.render()).collect(), sels: g });
        }
    }
    slice(ctx, &format!("(5c) every pair from a {}-selector mixed pool ({} pairs) x Dred<=3", pool.len(), pairs.len()), &red, 3, &pairs, false);
    // (6) deep mis-nesting x counting selectors: one end tag closing several nested elements of
    // the same type, followed by new siblings at intermediate depths
    let tiny = vec![DEv::open("a"), DEv::open("q"), DEv::close("a"), DEv::close("q")];
    let counting: Vec<Simple> = vec![
        Simple::FirstChild, Simple::NthChild(2, 1), Simple::NthChild(0, 2), Simple::NthChild(-1, 2), Simple::FirstOfType, Simple::NthOfType(0, 2),
        Simple::NthOfType(2, 1), Simple::NthOfType(-1, 2), not1(Simple::FirstOfType), not1(Simple::FirstChild),
    ];
    let mut csel: Vec<SelList> = vec![];
    for c in &counting {
        csel.push(SelList::one(Complex::single(Compound::one(c.clone()))));
        csel.push(SelList::one(Complex::single(Compound(vec![ty("a"), c.clone()]))));
        csel.push(SelList::one(Complex { compounds: vec![Compound::one(ty("q")), Compound(vec![ty("a"), c.clone()])], combs: vec![Comb::Child] }));
        csel.push(SelList::one(Complex { compounds: vec![Compound(vec![ty("q"), c.clone()]), Compound::one(ty("a"))], combs: vec![Comb::Descendant] }));
    }
    let deep = if quick { 7 } else { 9 };
    slice(ctx, &format!("(6) {} counting selectors (:nth-child/:nth-of-type families, alone and in chains) in groups of 20 x every document over {{<a>,<q>,</a>,</q>}} up to length {deep}", csel.len()), &tiny, deep, &jobs_from(csel, 20, true), false);
    // (7) attribute matcher: every operator x every operand over {a,b,A,-,space} (len 1..3) x
    // {default, i} against every attribute value over the same alphabet (len <= 4): overlapping
    // false starts, case folding, dash and whitespace boundaries
    let chars = ['a', 'b', 'A', '-', ' '];
    let strings_upto = |max: usize| -> Vec<String> {
        let mut out = vec![String::new()];
        let mut layer = vec![String::new()];
        for _ in 0..max {
            let mut next = vec![];
            for s in &layer {
                for c in chars {
                    let mut t = s.clone();
                    t.push(c);
                    next.push(t);
                }
            }
            out.extend(next.iter().cloned());
            layer = next;
        }
        out
    };
    let values = strings_upto(if quick { 4 } else { 5 });
    let operands: Vec<String> = strings_upto(3).into_iter().filter(|s| !s.is_empty()).collect();
    let mut asel: Vec<SelList> = vec![];
    for op in [AttrOp::Eq, AttrOp::Includes, AttrOp::Dash, AttrOp::Prefix, AttrOp::Suffix, AttrOp::Substr] {
        for o in &operands {
            for case in [Case::Default, Case::I] {
                asel.push(SelList::one(Complex::single(Compound::one(attr("k", op, o, case)))));
            }
        }
    }
    let avals: Vec<DEv> = values.iter().map(|v| DEv::open_a("a", &format!(" j=b k=\"{v}\""), &[("j", "b"), ("k", v)])).collect();
    slice(ctx, &format!("(7) {} attribute selectors (6 operators x operands over {{a,b,A,-,space}} len 1..3 x {{default,i}}) in groups of 62 x {} attribute values (len<={})", asel.len(), avals.len(), if quick { 4 } else { 5 }), &avals, 1, &jobs_from(asel, 62, true), false);
    // (8) wide selector sets: all simple selectors registered in ONE rewriter (match ids beyond
    // one 32-bit word), in two registration orders
    let mut rev = s1.clone();
    rev.reverse();
    slice(ctx, &format!("(8) all {} simple selectors in one rewriter, forward and reversed registration order x D<={}", s1.len(), if quick { 3 } else { 4 }), &full, if quick { 3 } else { 4 }, &[jobs_from(s1.clone(), s1.len(), false), jobs_from(rev, s1.len(), false)].into_iter().flatten().collect::<Vec<_>>(), true);
    // (9) match-id boundaries: N never-matching selectors registered first (N around 32, 64, 128),
    // then one selector of the core — its matches must not depend on its registration index
    {
        let mut jobs = vec![];
        let ns: &[usize] = if quick { &[31, 32, 33, 64, 65, 128, 129] } else { &[31, 32, 33, 63, 64, 65, 127, 128, 129] };
        for &n in ns {
            let fillers: Vec<SelList> = (0..n).map(|i| SelList::one(Complex::single(Compound::one(ty(&format!("zz{i}")))))).collect();
            let targets = simple_lists(simples_core());
            for target in targets.into_iter().step_by(if quick { 2 } else { 1 }) {
                let mut g = fillers.clone();
                g.push(target);
                jobs.push(Job { strs: g.iter().map(|s| s.render()).collect(), sels: g });
            }
            // the same selector registered before and after the fillers (ids on both sides of a
            // multiple of 32 in one predicate's id set)
            for dup in simple_lists(vec![ty("a"), Simple::Class("c".into())]) {
                let mut g = vec![dup.clone()];
                g.extend(fillers.iter().cloned());
                g.push(dup);
                jobs.push(Job { strs: g.iter().map(|s| s.render()).collect(), sels: g });
            }
            // two late selectors that match the same elements (the second merge into a grown set)
            let mut g = fillers.clone();
            g.extend(simple_lists(vec![ty("a"), Simple::Universal, Simple::Class("c".into())]));
            jobs.push(Job { strs: g.iter().map(|s| s.render()).collect(), sels: g });
        }
        slice(ctx, &format!("(9) {} groups: N never-matching selectors (N around 32, 64, 128) followed by one core selector (or three) x Dred<=3", jobs.len()), &red, 3, &jobs, false);
    }
    ctx.finish(
        "model_checking",
        RULE,
        &[
            "R-tree/R-match are written from the statement of C04 and CSS Selectors; selectors are generated as ASTs and rendered, no parser is shared with the implementation",
            "documents in which an HTML breakout tag occurs inside svg are outside the statement's tree definition and are not generated",
        ],
        true,
    )
}
