//! C12 Fail-stop and sink protocol.

use crate::drive::*;
use crate::explore::*;
use serde_json::{Value, json};

const RULE: &str = "every call history write(c1)..write(cn) [end] with n<=depth and ci from a 10-chunk alphabet (incl. the empty chunk, split tags/comments, a meta charset tag, a lone UTF-8 lead byte) x configurations {none, observers, markers with empty-string payloads, set_text(\"\"), set_name(\"\"), document-end appends, meta-charset switching} x faults {none, failing handler invocation k for every k, memory limits} x graceful flags; the sink-protocol automaton R-proto runs on every history; non-trivial = distinct (history, config) whose sink log has >= 2 events";

pub const CHUNKS: &[&[u8]] = &[
    b"", b"x", b"<a>", b"<a ", b"<!--", b"-->", b"<meta charset=windows-1251>", "\u{e9}".as_bytes(), b"</a>", b"\xC3",
];

#[derive(Clone)]
struct Conf {
    name: &'static str,
    cfg: Cfg,
}

fn confs() -> Vec<Conf> {
    let e = |s: &str| s.to_string();
    let mut everything = crate::common::observer_menu().pop().unwrap().1;
    everything.push(HSpec::obs_end_tag("*"));
    let empties = vec![
        HSpec::with_ops(HKind::Element, "a", vec![Op::Before(e(""), true), Op::After(e(""), false), Op::Prepend(e(""), true), Op::Append(e(""), true)]),
        HSpec::with_ops(HKind::Comments, "*", vec![Op::SetText(e(""))]),
        HSpec::with_ops(HKind::DocComments, "", vec![Op::Before(e(""), true)]),
        HSpec::with_ops(HKind::DocText, "", vec![Op::Replace(e(""), true)]),
        HSpec::with_ops(HKind::DocEnd, "", vec![Op::Append(e(""), true)]),
    ];
    let names = vec![
        HSpec { end_tag_ops: Some(vec![Op::SetText(e(""))]), ..HSpec::with_ops(HKind::Element, "a", vec![Op::StSetName(e(""))]) },
        HSpec::with_ops(HKind::DocEnd, "", vec![Op::Append(e("E"), true), Op::Append(e(""), false)]),
    ];
    let repl = vec![
        HSpec::with_ops(HKind::Element, "a", vec![Op::Replace(e(""), true)]),
        HSpec::with_ops(HKind::DocComments, "", vec![Op::Replace(e(""), false)]),
        HSpec::with_ops(HKind::DocText, "", vec![Op::SetText(e(""))]),
    ];
    let meta = Cfg { adjust_charset: true, ..Cfg::with(vec![HSpec::obs(HKind::DocText, ""), HSpec::with_ops(HKind::DocEnd, "", vec![Op::Append(e("\u{416}"), false)])]) };
    // the same insertions through the streaming_* variants (the streaming sink gets empty pieces
    // and a character split over two pieces), in UTF-8 and in a legacy encoding
    let streaming = vec![
        HSpec::with_ops(HKind::Element, "a", vec![Op::Before(e(""), true), Op::After(e("\u{e9}"), false), Op::Prepend(e(""), true), Op::Append(e("x"), true)]),
        HSpec::with_ops(HKind::DocComments, "", vec![Op::Before(e(""), true), Op::After(e(""), false)]),
        HSpec::with_ops(HKind::DocText, "", vec![Op::Replace(e(""), true)]),
    ];
    vec![
        Conf { name: "none", cfg: Cfg::default() },
        Conf { name: "observers", cfg: Cfg::with(everything) },
        Conf { name: "streaming insertions with empty pieces", cfg: Cfg::with(streaming.clone()).streaming(true) },
        // a streaming handler that fails after writing, with more content queued in the same slot
        // (by the same handler and by a second handler): nothing may follow the failure
        Conf {
            name: "failing streaming handler followed by more content in the same slot",
            cfg: Cfg::with(vec![
                HSpec::with_ops(HKind::Element, "a", vec![Op::Before(format!("{}one", FAILING_STREAM_PREFIX), true), Op::Before("late1".into(), true), Op::Append("late2".into(), true)]),
                HSpec::with_ops(HKind::Element, "*", vec![Op::Before("late3".into(), true)]),
                HSpec::with_ops(HKind::DocText, "", vec![Op::After(format!("{}t", FAILING_STREAM_PREFIX), false), Op::After("late4".into(), true)]),
            ])
            .streaming(true),
        },
        Conf { name: "streaming insertions with empty pieces (windows-1252)", cfg: Cfg::with(streaming).streaming(true).enc("windows-1252") },
        Conf { name: "empty-payload markers", cfg: Cfg::with(empties) },
        Conf { name: "empty names + doc-end appends", cfg: Cfg::with(names) },
        Conf { name: "empty replacements", cfg: Cfg::with(repl) },
        Conf { name: "meta charset + doc-text + doc-end append", cfg: meta },
        Conf { name: "meta charset only", cfg: Cfg { adjust_charset: true, ..Cfg::default() } },
    ]
}

/// R-proto: the sink-protocol automaton over one finished execution.
fn r_proto(cfg: &Cfg, rr: &RunResult, ended: bool, baseline: Option<&RunResult>) -> Option<String> {
    // 1. encoding announced first
    match rr.sink.first() {
        Some(SinkEv::SetEncoding(_)) => {}
        other => return Some(format!("first sink call is {:?}, not set_encoding", other)),
    }
    let n_enc = rr.sink.iter().filter(|e| matches!(e, SinkEv::SetEncoding(_))).count();
    if n_enc > 2 || (n_enc == 2 && !cfg.adjust_charset) {
        return Some(format!("set_encoding called {n_enc} times"));
    }
    if n_enc == 2 {
        let encs: Vec<&String> = rr.sink.iter().filter_map(|e| if let SinkEv::SetEncoding(n) = e { Some(n) } else { None }).collect();
        if encs[0] == encs[1] {
            return Some("second set_encoding repeats the same encoding".into());
        }
    }
    // 2. zero-length chunks
    let empties: Vec<usize> = rr.sink.iter().enumerate().filter(|(_, e)| matches!(e, SinkEv::Chunk(c) if c.is_empty())).map(|(i, _)| i).collect();
    let failed = rr.first_failure();
    let end_ok = ended && failed.is_none();
    if end_ok {
        if empties.len() != 1 || empties[0] != rr.sink.len() - 1 {
            return Some(format!(
                "successful end(): zero-length chunks at sink positions {:?} of {} (exactly one, as the very last call, is required)",
                empties, rr.sink.len()
            ));
        }
    } else if !empties.is_empty() {
        return Some(format!("zero-length chunk at sink position {} although end() did not succeed", empties[0]));
    }
    // 3. fail-stop
    if let Some((i, r)) = failed {
        if matches!(r, CallRes::Panic(_)) {
            return Some(format!("call #{i} panicked: {}", r.short()));
        }
        // the probe write after the error must panic and leave the sink untouched
        for (k, what) in [(1usize, "an empty write"), (2, "a write")] {
            match rr.results.get(i + k) {
                Some(CallRes::Panic(m)) if m.contains("after a fatal error") => {}
                Some(other) => return Some(format!("{what} after an error did not panic as documented: {}", other.short())),
                None => {}
            }
            if rr.sink_len_after.len() > i + k && rr.sink_len_after[i + k] != rr.sink_len_after[i] {
                return Some("the sink was touched by a call made after an error had been returned".into());
            }
        }
        let graceful = match r.err_kind() {
            Some(ERR_MEM) => cfg.graceful_mem,
            Some(ERR_HANDLER) => cfg.graceful_handler,
            _ => false,
        };
        if !graceful {
            if let Some(b) = baseline {
                if !b.out.starts_with(&rr.out) {
                    return Some(format!(
                        "no graceful bail-out: bytes emitted before the failure {:?} are not a prefix of the complete run's output {:?}",
                        lossy(&rr.out), lossy(&b.out)
                    ));
                }
            }
        }
    }
    None
}

fn run_history(cfg: &Cfg, hist: &[usize], end: bool) -> (RunResult, Prepared) {
    let p = Prepared::new(cfg.clone()).unwrap();
    let chunks: Vec<&[u8]> = hist.iter().map(|&i| CHUNKS[i]).collect();
    (run_opts(&p, &chunks, end, true), p)
}

fn check_one(cfg: &Cfg, hist: &[usize], end: bool) -> Option<String> {
    let (rr, _) = run_history(cfg, hist, end);
    let baseline = if rr.first_failure().is_some() {
        let clean = Cfg { fail_at: None, mem: None, ..cfg.clone() }.streaming(false);
        Some(run_history(&clean, hist, true).0)
    } else {
        None
    };
    r_proto(cfg, &rr, end, baseline.as_ref())
}

pub fn replay(case: &Value) -> Option<String> {
    let cfg: Cfg = serde_json::from_value(case["cfg"].clone()).ok()?;
    let hist: Vec<usize> = serde_json::from_value(case["history"].clone()).ok()?;
    let end = case["end"].as_bool()?;
    check_one(&cfg, &hist, end)
}

pub fn run_check(ctx: &Ctx) -> i32 {
    let depth = if ctx.quick() { 5 } else { 7 };
    let confs = confs();
    let k = CHUNKS.len();
    let n = crate::alpha::count_upto(k, depth);
    let mems: &[usize] = &[0, 3, 8, 40];
    par_for(n, 8, |i| {
        if ctx.over_time() {
            return;
        }
        let mut hist = vec![];
        crate::alpha::seq_at(i, k, &mut hist);
        for conf in &confs {
            for end in [true, false] {
                // fault-free run first: it tells how many handler invocations there are
                let (rr0, _) = run_history(&conf.cfg, &hist, end);
                let total_handler_calls = {
                    // count handler invocations = events that are not OpRes/ReRead/BailOut
                    rr0.events.iter().filter(|e| !matches!(e, Ev::OpRes { .. } | Ev::ReRead { .. } | Ev::BailOut { .. })).count()
                };
                let mut variants: Vec<Cfg> = vec![conf.cfg.clone()];
                if end {
                    for kf in 1..=total_handler_calls.min(12) {
                        for g in [false, true] {
                            variants.push(Cfg { fail_at: Some(kf), graceful_handler: g, bail_out_handlers: if g { 1 } else { 0 }, ..conf.cfg.clone() });
                        }
                        // a bail-out handler that appends an empty string (and then its marker)
                        variants.push(Cfg { fail_at: Some(kf), graceful_handler: true, bail_out_handlers: 2, bail_out_payload: Some((String::new(), kf % 2 == 0)), ..conf.cfg.clone() });
                        variants.push(Cfg { fail_at: Some(kf), graceful_handler: false, graceful_mem: true, bail_out_handlers: 1, ..conf.cfg.clone() });
                    }
                    for &m in mems {
                        for g in [false, true] {
                            variants.push(Cfg { mem: Some((m, 0)), graceful_mem: g, ..conf.cfg.clone() });
                        }
                        variants.push(Cfg { mem: Some((m, 0)), graceful_mem: true, bail_out_handlers: 1, bail_out_payload: Some((String::new(), true)), ..conf.cfg.clone() });
                        // bail-out handlers registered, but only the OTHER error kind is graceful
                        variants.push(Cfg { mem: Some((m, 0)), graceful_mem: false, graceful_handler: true, bail_out_handlers: 1, ..conf.cfg.clone() });
                    }
                }
                for (vi, cfg) in variants.iter().enumerate() {
                    let rr = if vi == 0 { rr0.clone() } else { run_history(cfg, &hist, end).0 };
                    ctx.exec(rr.results.len());
                    ctx.validated(1);
                    ctx.states.insert(digest(&(&hist, end, &rr.sink_len_after, &rr.results)));
                    ctx.outcomes.insert(digest(&rr.sink));
                    if rr.sink.len() >= 2 {
                        ctx.nontrivial.insert(digest(&(&hist, end, cfg)));
                    }
                    let baseline = if rr.first_failure().is_some() {
                        // the complete run: no injected fault, and streaming handlers that do not
                        // fail (the same content through the non-streaming calls)
                        let clean = Cfg { fail_at: None, mem: None, ..cfg.clone() }.streaming(false);
                        Some(run_history(&clean, &hist, true).0)
                    } else {
                        None
                    };
                    if let Some(msg) = r_proto(cfg, &rr, end, baseline.as_ref()) {
                        let case = json!({"cfg": cfg, "config_name": conf.name, "history": hist, "history_lossy": hist.iter().map(|&i| lossy(CHUNKS[i])).collect::<Vec<_>>(), "end": end});
                        let c2 = case.clone();
                        // signature for a possible known finding: which API produced the empty chunk
                        ctx.violation(msg, case, &|| replay(&c2));
                    }
                }
            }
        }
        if i % 1_013 == 7 {
            ctx.sample(json!({"history": hist.iter().map(|&i| lossy(CHUNKS[i])).collect::<Vec<_>>(), "configs": confs.len()}));
        }
    });
    if !ctx.capped.load(std::sync::atomic::Ordering::Relaxed) {
        ctx.level_done(&format!("all histories of depth<={depth} over {k} chunks x {} configs x end{{yes,no}} x faults", confs.len()));
    }
    ctx.finish(
        "model_checking",
        RULE,
        &["the monitor R-proto is transcribed from the property statement", "memory faults use limits {0,3,8,40} with no preallocation; handler faults cover every invocation index up to 12"],
        true,
    )
}
