//! C05 Scoped dispatch: handlers fire exactly once, in order, for exactly their scope.

use crate::common::*;
use crate::docgen::*;
use crate::drive::*;
use crate::explore::*;
use crate::rmatch::*;
use serde_json::{Value, json};

const RULE: &str = "every document over a 14-event alphabet (len<=n: unclosed, mis-nested, void, foreign self-closing, text, comments, doctype) x selector sets (singles and pairs from a 10-selector pool) x every subset of size<=2 (and the full set) of the 12 registrations {element, text, comments, on_end_tag} x {sel1, sel2} + {doc-text, doc-comments, doctype, end}, in natural and reversed registration order, plus variants where another handler removes content, plus the same registrations made as combined ElementContentHandlers / DocumentContentHandlers entries x {single write, a cut inside every token}; oracle: the normalised handler log == R-scope's prediction (exactly once, nothing outside scope, document order, registration order with selector-scoped before document-level, end handler last, end-tag handlers at the closing end tag); non-trivial = distinct (document, configuration) with >=2 predicted events";

fn doc_alphabet() -> Vec<DEv> {
    vec![
        DEv::open("a"),
        DEv::open_a("a", " class=c k=v", &[("class", "c"), ("k", "v")]),
        DEv::open("q"),
        DEv::open_a("q", " class=c", &[("class", "c")]),
        DEv::open("br"),
        DEv::open("input"),
        DEv::open("svg"),
        DEv::open_slash("a"),
        DEv::close("a"),
        DEv::close("q"),
        DEv::close("svg"),
        DEv::Text("t".into()),
        DEv::Comment("c".into()),
        DEv::Doctype,
    ]
}

fn ty(s: &str) -> Compound {
    Compound::one(Simple::Type(s.into()))
}

fn selector_pool() -> Vec<SelList> {
    let one = |c: Compound| SelList::one(Complex::single(c));
    let chain = |a: Compound, comb: Comb, b: Compound| SelList::one(Complex { compounds: vec![a, b], combs: vec![comb] });
    vec![
        one(ty("a")),
        one(ty("q")),
        one(Compound::one(Simple::Universal)),
        chain(ty("a"), Comb::Child, ty("q")),
        chain(ty("a"), Comb::Descendant, ty("q")),
        chain(ty("q"), Comb::Descendant, ty("a")),
        one(Compound::one(Simple::Class("c".into()))),
        one(Compound(vec![Simple::Type("a".into()), Simple::AttrExists("k".into())])),
        chain(ty("svg"), Comb::Descendant, ty("a")),
        one(Compound::one(Simple::Not(vec![ty("a")]))),
    ]
}

/// One registration of the menu.
#[derive(Clone, Copy, Debug, PartialEq, Eq, Hash, serde::Serialize, serde::Deserialize)]
enum Reg {
    El(u8),
    Text(u8),
    Comm(u8),
    EndTag(u8),
    DocText,
    DocComm,
    DocDoctype,
    DocEnd,
    /// element(sel) handler that removes the element (content removed by another handler)
    Remover(u8),
}

fn all_regs() -> Vec<Reg> {
    vec![
        Reg::El(0), Reg::Text(0), Reg::Comm(0), Reg::EndTag(0), Reg::El(1), Reg::Text(1), Reg::Comm(1), Reg::EndTag(1),
        Reg::DocText, Reg::DocComm, Reg::DocDoctype, Reg::DocEnd,
    ]
}

fn build_cfg(sels: &[SelList], regs: &[Reg], merge: bool) -> Cfg {
    let s = |i: u8| sels[i as usize % sels.len()].render();
    let hs = regs
        .iter()
        .map(|r| match r {
            Reg::El(i) => HSpec::obs(HKind::Element, &s(*i)),
            Reg::Text(i) => HSpec::obs(HKind::Text, &s(*i)),
            Reg::Comm(i) => HSpec::obs(HKind::Comments, &s(*i)),
            Reg::EndTag(i) => HSpec::obs_end_tag(&s(*i)),
            Reg::DocText => HSpec::obs(HKind::DocText, ""),
            Reg::DocComm => HSpec::obs(HKind::DocComments, ""),
            Reg::DocDoctype => HSpec::obs(HKind::DocDoctype, ""),
            Reg::DocEnd => HSpec::obs(HKind::DocEnd, ""),
            Reg::Remover(i) => HSpec { log: false, ..HSpec::with_ops(HKind::Element, &s(*i), vec![Op::Remove]) },
        })
        .collect();
    Cfg::with(hs).strict(false).merged(merge)
}

/// Predicted event, location-identified. Compared with the implementation's normalised log.
#[derive(Clone, Debug, PartialEq, Eq, PartialOrd, Ord)]
enum P {
    El { reg: u16, at: usize },
    NoEndTag { reg: u16 },
    EndTag { reg: u16, at: usize, name: String },
    Comment { reg: u16, at: usize },
    Text { reg: u16, at: usize, text: String },
    Doctype { reg: u16, at: usize },
    DocEnd { reg: u16 },
}

/// R-scope: which handler must fire for which event, in which order.
fn predict(evs: &[DEv], r: &Rendered, tree: &Tree, sels: &[SelList], regs: &[Reg]) -> Vec<P> {
    let sel_of = |i: u8| &sels[i as usize % sels.len()];
    let matches = |i: u8, node: usize| list_matches(sel_of(i), tree, node, NotMode::Css);
    let mut out = vec![];
    for (ei, e) in evs.iter().enumerate() {
        let at = r.spans[ei].0;
        match e {
            DEv::Doctype => {
                for (ri, reg) in regs.iter().enumerate() {
                    if *reg == Reg::DocDoctype {
                        out.push(P::Doctype { reg: ri as u16, at });
                    }
                }
            }
            DEv::Comment(_) | DEv::Text(_) => {
                let is_text = matches!(e, DEv::Text(_));
                let open = &tree.open_at[ei];
                // selector-scoped first, in registration order
                for (ri, reg) in regs.iter().enumerate() {
                    let sel = match (reg, is_text) {
                        (Reg::Text(i), true) => Some(*i),
                        (Reg::Comm(i), false) => Some(*i),
                        _ => None,
                    };
                    if let Some(i) = sel {
                        if open.iter().any(|&n| matches(i, n)) {
                            out.push(if is_text { P::Text { reg: ri as u16, at, text: "t".into() } } else { P::Comment { reg: ri as u16, at } });
                        }
                    }
                }
                for (ri, reg) in regs.iter().enumerate() {
                    match (reg, is_text) {
                        (Reg::DocText, true) => out.push(P::Text { reg: ri as u16, at, text: "t".into() }),
                        (Reg::DocComm, false) => out.push(P::Comment { reg: ri as u16, at }),
                        _ => {}
                    }
                }
            }
            DEv::Open { .. } => {
                let node = tree.node_of_ev[ei].unwrap();
                for (ri, reg) in regs.iter().enumerate() {
                    match reg {
                        Reg::El(i) if matches(*i, node) => out.push(P::El { reg: ri as u16, at }),
                        Reg::EndTag(i) if matches(*i, node) => {
                            out.push(P::El { reg: ri as u16, at });
                            if tree.nodes[node].empty {
                                out.push(P::NoEndTag { reg: ri as u16 });
                            }
                        }
                        _ => {}
                    }
                }
            }
            DEv::Close(name) => {
                // every element closed by this end tag, innermost first; order among several
                // end-tag handlers on one end tag is not fixed by the statement (sorted later)
                let mut here = vec![];
                for (ni, n) in tree.nodes.iter().enumerate().rev() {
                    if n.closed_by == Some(ei) {
                        for (ri, reg) in regs.iter().enumerate() {
                            if let Reg::EndTag(i) = reg {
                                if matches(*i, ni) {
                                    here.push(P::EndTag { reg: ri as u16, at, name: name.to_ascii_lowercase() });
                                }
                            }
                        }
                    }
                }
                here.sort();
                out.extend(here);
            }
        }
    }
    for (ri, reg) in regs.iter().enumerate() {
        if *reg == Reg::DocEnd {
            out.push(P::DocEnd { reg: ri as u16 });
        }
    }
    out
}

fn observed(events: &[Ev]) -> Result<Vec<P>, String> {
    let norm = normalise_events(events)?;
    let mut out: Vec<P> = vec![];
    for e in norm {
        let p = match e {
            Ev::El { reg, loc, .. } => P::El { reg, at: loc.0 },
            Ev::OpRes { reg, op, ok: false } if op == u16::MAX => P::NoEndTag { reg },
            Ev::EndTag { reg, loc, name, .. } => P::EndTag { reg, at: loc.0, name },
            Ev::Comment { reg, loc, .. } => P::Comment { reg, at: loc.0 },
            Ev::Text { reg, loc, text, .. } => P::Text { reg, at: loc.0, text },
            Ev::Doctype { reg, loc, .. } => P::Doctype { reg, at: loc.0 },
            Ev::DocEnd { reg } => P::DocEnd { reg },
            _ => continue,
        };
        out.push(p);
    }
    // sort each maximal run of EndTag events at the same position
    let mut i = 0;
    while i < out.len() {
        if let P::EndTag { at, .. } = &out[i] {
            let at0 = *at;
            let mut j = i;
            while j < out.len() && matches!(&out[j], P::EndTag { at, .. } if *at == at0) {
                j += 1;
            }
            out[i..j].sort();
            i = j;
        } else {
            i += 1;
        }
    }
    Ok(out)
}

fn cuts_in_tokens(r: &Rendered) -> Vec<usize> {
    r.spans.iter().filter(|s| s.1 - s.0 >= 2).map(|s| s.0 + 1).collect()
}

fn check(p: &Prepared, sels: &[SelList], regs: &[Reg], evs: &[DEv], cut: bool) -> (Option<String>, usize, usize) {
    let r = render(evs);
    let tree = build_tree(evs);
    let cuts = if cut { cuts_in_tokens(&r) } else { vec![] };
    let chunks = split(&r.bytes, &cuts);
    let rr = run(p, &chunks, true);
    let calls = rr.results.len();
    if !rr.all_ok() {
        return (Some(format!("run failed: {:?}", rr.first_failure().map(|(_, r)| r.short()))), calls, 0);
    }
    let want = predict(evs, &r, &tree, sels, regs);
    let got = match observed(&rr.events) {
        Ok(g) => g,
        Err(e) => return (Some(e), calls, want.len()),
    };
    if got != want {
        let i = got.iter().zip(want.iter()).position(|(a, b)| a != b).unwrap_or(got.len().min(want.len()));
        return (
            Some(format!(
                "document `{}` regs {:?}{}: handler log differs from the scope model at #{i}: got {:?}, expected {:?} (lens {} vs {})",
                lossy(&r.bytes), regs, if cut { " (cut inside every token)" } else { "" }, got.get(i), want.get(i), got.len(), want.len()
            )),
            calls,
            want.len(),
        );
    }
    (None, calls, want.len())
}

pub fn replay(case: &Value) -> Option<String> {
    let sels: Vec<SelList> = serde_json::from_value(case["selectors"].clone()).ok()?;
    let regs: Vec<Reg> = serde_json::from_value(case["regs"].clone()).ok()?;
    let evs: Vec<DEv> = serde_json::from_value(case["doc"].clone()).ok()?;
    let cut = case["cut"].as_bool()?;
    let merge = case["merge"].as_bool().unwrap_or(false);
    let p = Prepared::new(build_cfg(&sels, &regs, merge)).ok()?;
    check(&p, &sels, &regs, &evs, cut).0
}

struct Conf {
    sels: Vec<SelList>,
    regs: Vec<Reg>,
    merge: bool,
    p: Prepared,
}

fn confs(sel_sets: &[Vec<SelList>], reg_sets: &[Vec<Reg>], merge: bool) -> Vec<Conf> {
    let mut v = vec![];
    for s in sel_sets {
        for r in reg_sets {
            // registrations referring to selector #1 need a second selector
            if s.len() == 1 && r.iter().any(|x| matches!(x, Reg::El(1) | Reg::Text(1) | Reg::Comm(1) | Reg::EndTag(1) | Reg::Remover(1))) {
                continue;
            }
            let cfg = build_cfg(s, r, merge);
            v.push(Conf { sels: s.clone(), regs: r.clone(), merge, p: Prepared::new(cfg).unwrap() });
        }
    }
    v
}

fn slice(ctx: &Ctx, name: &str, alpha: &[DEv], max_len: usize, confs: &[Conf], with_cut: bool) {
    slice_ctx(ctx, name, &[vec![]], alpha, max_len, confs, with_cut)
}

/// Like `slice`, every document prefixed by each of `prefixes`.
fn slice_ctx(ctx: &Ctx, name: &str, prefixes: &[Vec<DEv>], alpha: &[DEv], max_len: usize, confs: &[Conf], with_cut: bool) {
    let n = crate::alpha::count_upto(alpha.len(), max_len) * prefixes.len();
    par_for(n, 4, |dj| {
        if ctx.over_time() {
            return;
        }
        let di = dj / prefixes.len();
        let mut idx = vec![];
        crate::alpha::seq_at(di, alpha.len(), &mut idx);
        let mut evs: Vec<DEv> = prefixes[dj % prefixes.len()].clone();
        evs.extend(idx.iter().map(|&k| alpha[k].clone()));
        let di = dj;
        // canonical documents only: no adjacent text events (they would be one text node)
        if evs.windows(2).any(|w| matches!((&w[0], &w[1]), (DEv::Text(_), DEv::Text(_)))) {
            return;
        }
        let tree = build_tree(&evs);
        if !tree.in_domain {
            return;
        }
        for c in confs {
            for cut in [false, true] {
                if cut && !with_cut {
                    continue;
                }
                let (m, calls, predicted) = check(&c.p, &c.sels, &c.regs, &evs, cut);
                ctx.exec(calls);
                ctx.validated(1);
                if predicted >= 2 && !cut {
                    ctx.nontrivial.insert(digest(&(di, &c.regs, c.sels.iter().map(|s| s.render()).collect::<Vec<_>>())));
                }
                if let Some(msg) = m {
                    let case = json!({"selectors": c.sels, "selector_strings": c.sels.iter().map(|s| s.render()).collect::<Vec<_>>(), "regs": c.regs, "doc": evs, "cut": cut, "merge": c.merge});
                    let c2 = case.clone();
                    ctx.violation(msg, case, &|| replay(&c2));
                }
            }
        }
        let r = render(&evs);
        ctx.states.insert(digest(&r.bytes));
        ctx.outcomes.insert(digest(&tree.nodes.iter().map(|n| (n.parent, n.closed_by, n.empty)).collect::<Vec<_>>()));
        if di % 2_003 == 5 {
            ctx.sample(json!({"slice": name, "document": lossy(&r.bytes), "configs": confs.len()}));
        }
    });
    if !ctx.capped.load(std::sync::atomic::Ordering::Relaxed) {
        ctx.level_done(name);
    }
}

pub fn run_check(ctx: &Ctx) -> i32 {
    let alpha = doc_alphabet();
    let pool = selector_pool();
    let singles: Vec<Vec<SelList>> = pool.iter().map(|s| vec![s.clone()]).collect();
    let pair_idx: &[(usize, usize)] = &[(0, 1), (0, 2), (1, 3), (0, 4), (5, 0), (6, 0), (7, 1), (8, 2), (9, 0), (2, 2), (3, 4), (6, 9)];
    let pairs: Vec<Vec<SelList>> = pair_idx.iter().map(|&(a, b)| vec![pool[a].clone(), pool[b].clone()]).collect();
    let regs = all_regs();
    let mut small_sets: Vec<Vec<Reg>> = vec![];
    for i in 0..regs.len() {
        small_sets.push(vec![regs[i]]);
        for j in i + 1..regs.len() {
            small_sets.push(vec![regs[i], regs[j]]);
            small_sets.push(vec![regs[j], regs[i]]); // reversed registration order
        }
    }
    let full: Vec<Reg> = regs.clone();
    let mut full_rev = regs.clone();
    full_rev.reverse();
    let with_remover = vec![Reg::Remover(1), Reg::El(0), Reg::Text(0), Reg::Comm(0), Reg::EndTag(0), Reg::DocText, Reg::DocComm, Reg::DocEnd];
    let with_remover2 = vec![Reg::El(0), Reg::Text(0), Reg::EndTag(0), Reg::Remover(0), Reg::DocText];
    let big_sets = vec![full.clone(), full_rev.clone(), with_remover.clone(), with_remover2.clone()];
    let quick = ctx.quick();
    let all_sel: Vec<Vec<SelList>> = singles.iter().chain(pairs.iter()).cloned().collect();
    slice(ctx, &format!("D<={} x {} selector sets x {} registration subsets of size<=2 (both orders)", if quick { 3 } else { 4 }, all_sel.len(), small_sets.len()), &alpha, if quick { 3 } else { 4 }, &confs(&all_sel, &small_sets, false), true);
    slice(ctx, &format!("D<={} x {} selector sets x full registration set (natural, reversed) + 2 content-removing variants, with cuts", if quick { 4 } else { 5 }, all_sel.len()), &alpha, if quick { 4 } else { 5 }, &confs(&all_sel, &big_sets, false), true);
    // the same registrations as combined entries: {element, text, comments} of one selector in ONE
    // ElementContentHandlers, {doctype, comments, text, end} in ONE DocumentContentHandlers
    let merged_sets: Vec<Vec<Reg>> = vec![
        full.clone(),
        vec![Reg::Text(0), Reg::Comm(0), Reg::DocText, Reg::DocComm],
        vec![Reg::El(0), Reg::Text(0), Reg::Comm(0), Reg::El(1), Reg::Text(1), Reg::Comm(1)],
        vec![Reg::Comm(0), Reg::Text(0), Reg::EndTag(0), Reg::Comm(1), Reg::Text(1), Reg::DocEnd, Reg::DocText],
        with_remover.clone(),
    ];
    slice(ctx, &format!("D<={} x {} selector sets x {} registration sets registered as COMBINED handler entries, with cuts", if quick { 4 } else { 5 }, all_sel.len(), merged_sets.len()), &alpha, if quick { 4 } else { 5 }, &confs(&all_sel, &merged_sets, true), true);
    // foreign content and integration points: names that cannot be hashed (x-y), end tags inside
    // the HTML content of an integration point, self-closing syntax; mostly in tag-scan mode
    let falpha = vec![
        DEv::open("x-y"), DEv::close("x-y"), DEv::open("a"), DEv::close("a"), DEv::open_slash("a"), DEv::open("q"), DEv::close("q"), DEv::open("mi"), DEv::close("mi"),
        DEv::open("desc"), DEv::close("desc"), DEv::open("input"), DEv::Text("t".into()), DEv::Comment("c".into()),
    ];
    let fprefixes = vec![
        vec![DEv::open("math"), DEv::open("mi")],
        vec![DEv::open("math"), DEv::open_a("annotation-xml", " encoding=\"text/html\"", &[("encoding", "text/html")])],
        vec![DEv::open("svg"), DEv::open("desc")],
        vec![DEv::open("svg")],
        vec![DEv::open("math")],
    ];
    let fsel: Vec<Vec<SelList>> = vec![vec![pool[0].clone()], vec![pool[0].clone(), pool[1].clone()], vec![pool[2].clone()], vec![pool[5].clone(), pool[0].clone()]];
    let fregs: Vec<Vec<Reg>> = vec![
        vec![Reg::El(0)], vec![Reg::EndTag(0)], vec![Reg::Text(0)], vec![Reg::El(0), Reg::Text(1), Reg::EndTag(0)], vec![Reg::Comm(0), Reg::El(1)],
        vec![Reg::El(0), Reg::DocText], full.clone(),
    ];
    slice_ctx(ctx, &format!("5 foreign / integration-point prefixes x 14-event foreign alphabet (unhashable names, self-closing, end tags inside integration points) <={} x {} selector sets x {} registration sets, with cuts", if quick { 3 } else { 4 }, fsel.len(), fregs.len()), &fprefixes, &falpha, if quick { 3 } else { 4 }, &confs(&fsel, &fregs, false), true);
    // scaled documents: nesting deeper than 16 / 32 / 64 open elements, many siblings closed by an
    // ancestor's end tag, handlers switched on and off many times
    {
        let counts: &[usize] = if quick { &[17, 33, 65] } else { &[8, 9, 16, 17, 32, 33, 64, 65, 129, 300] };
        let mut docs: Vec<(String, Vec<DEv>)> = vec![];
        for &n in counts {
            let mut d: Vec<DEv> = (0..n).map(|_| DEv::open("a")).collect();
            d.extend([DEv::Text("t".into()), DEv::Comment("c".into()), DEv::open("q"), DEv::Text("t".into()), DEv::close("q")]);
            d.extend((0..n / 2).map(|_| DEv::close("a")));
            d.extend([DEv::Text("t".into()), DEv::open("q"), DEv::Comment("c".into())]);
            docs.push((format!("nesting depth {n}, half closed"), d));
            let mut d = vec![DEv::open("q")];
            for _ in 0..n {
                d.push(DEv::open_a("a", " class=c", &[("class", "c")]));
                d.push(DEv::Text("t".into()));
            }
            d.extend([DEv::close("q"), DEv::open("a"), DEv::Text("t".into())]);
            docs.push((format!("{n} unclosed siblings closed by the ancestor's end tag"), d));
            let mut d = vec![];
            for i in 0..n {
                d.extend([DEv::open(if i % 3 == 2 { "q" } else { "a" }), DEv::Text("t".into()), DEv::close(if i % 3 == 2 { "q" } else { "a" }), DEv::Comment("c".into())]);
            }
            docs.push((format!("{n} elements opened and closed in turn"), d));
        }
        let ssel: Vec<Vec<SelList>> = vec![vec![pool[0].clone(), pool[1].clone()], vec![pool[4].clone(), pool[0].clone()], vec![pool[2].clone(), pool[6].clone()], vec![pool[5].clone(), pool[9].clone()]];
        let cs = confs(&ssel, &[full.clone(), full_rev.clone(), with_remover2.clone()], false);
        par_for(docs.len(), 1, |di| {
            if ctx.over_time() {
                return;
            }
            let (label, evs) = &docs[di];
            if !build_tree(evs).in_domain {
                return;
            }
            for c in &cs {
                for cut in [false, true] {
                    let (m, calls, n) = check(&c.p, &c.sels, &c.regs, evs, cut);
                    ctx.exec(calls);
                    ctx.validated(1);
                    if n > 0 {
                        ctx.nontrivial.insert(digest(&(di, &c.regs, c.sels.len())));
                    }
                    if let Some(msg) = m {
                        let case = json!({"selectors": c.sels, "regs": c.regs, "doc": evs, "document": label, "cut": cut, "merge": false});
                        let c2 = case.clone();
                        ctx.violation(msg, case, &|| replay(&c2));
                    }
                }
            }
            ctx.states.insert(digest(evs));
        });
        if !ctx.capped.load(std::sync::atomic::Ordering::Relaxed) {
            ctx.level_done(&format!("{} scaled documents (nesting depths, unclosed siblings, open/close runs of {:?}) x 4 selector sets x 3 registration sets, with cuts", docs.len(), counts));
        }
    }
    // wide configuration: 34 never-matching registrations first, so that the interesting handlers
    // have registration indices beyond one 32-bit word of the matcher's id sets
    let mut wide_sels: Vec<SelList> = (0..34).map(|i| SelList::one(Complex::single(ty(&format!("zz{i}"))))).collect();
    wide_sels.push(pool[0].clone());
    wide_sels.push(pool[2].clone());
    wide_sels.push(pool[4].clone());
    let mut wide_regs: Vec<Reg> = (0..34u8).map(Reg::El).collect();
    wide_regs.extend([Reg::El(34), Reg::Text(34), Reg::Comm(34), Reg::EndTag(34), Reg::El(35), Reg::Text(35), Reg::EndTag(36), Reg::Text(36), Reg::DocText, Reg::DocEnd]);
    slice(ctx, &format!("D<={} x one wide configuration (34 never-matching element handlers, then 8 selector-scoped handlers with registration indices 34..41, + document-level), separate and combined entries, with cuts", if quick { 4 } else { 5 }), &alpha, if quick { 4 } else { 5 }, &[confs(&[wide_sels.clone()], &[wide_regs.clone()], false), confs(&[wide_sels], &[wide_regs], true)].into_iter().flatten().collect::<Vec<_>>(), true);
    ctx.finish(
        "model_checking",
        RULE,
        &[
            "R-scope is written from the statement of C05 and reuses R-tree/R-match (validated against the implementation by C04)",
            "order among several end-tag handlers on one end tag is compared as a multiset (not fixed by the statement)",
        ],
        true,
    )
}
