//! C15 Robustness: any bytes, selectors and settings give Ok or Err, never a crash.

use crate::alpha::*;
use crate::common::*;
use crate::drive::*;
use crate::explore::*;
use serde_json::{Value, json};
use std::panic::{AssertUnwindSafe, catch_unwind};

const RULE: &str = "(a) every byte string over B16 (len<=n) and every F<=k input x {single write, every 1-cut, byte-wise} x 7 configurations (all handlers incl. on_end_tag, strict on/off, tiny memory limits, esi tags, meta-charset, Shift_JIS); (b) every selector string over an 18-token CSS alphabet (len<=m) through Selector::from_str and, when accepted, through a rewrite; (c) every Sigma-string (len<=3) through every setter; (e) long text runs (valid prefix around the 1 KiB decoder buffer + malformed / incomplete / split tails) x 4 encodings x text handlers; (d) scaled pathological shapes (deep nesting, stray end tags, huge tokens, thousands of attributes/selectors) at sizes n and 4n in a subprocess: CPU(4n) <= 9*CPU(n)+0.05s. Oracle: no panic (catch_unwind in a build with debug assertions and overflow checks), every call returns (a watchdog reports any execution that does not return within 90 s as a hang), subprocess exits normally within its time limit; non-trivial = distinct inputs on which at least one handler ran or an error was returned";

const CSS: &[&str] = &[
    "a", "*", ".c", "#i", "[k]", "[k=\"v\" i]", ":not(", ")", ":nth-child(", ":nth-of-type(", "2n+1", "-2147483648", "n", " ", ">", ",", ":first-child", "99999999999",
];

fn configs() -> Vec<Prepared> {
    let mut everything = observer_menu().pop().unwrap().1;
    everything.push(HSpec::obs_end_tag("*"));
    let mut v = vec![
        Cfg::with(everything.clone()),
        Cfg::with(everything.clone()).strict(false),
        Cfg { mem: Some((24, 0)), ..Cfg::with(everything.clone()).strict(false) },
        Cfg { mem: Some((200, 16)), graceful_mem: true, bail_out_handlers: 1, ..Cfg::default() },
        Cfg { esi: true, adjust_charset: true, ..Cfg::with(vec![HSpec::obs(HKind::Element, "esi\\:include"), HSpec::obs(HKind::DocText, "")]) },
        Cfg::with(everything.clone()).strict(false).enc("Shift_JIS"),
    ];
    let mut rewriting = marker_menu();
    v.push(Cfg::with(rewriting.remove(4).1).strict(false));
    v.into_iter().map(|c| Prepared::new(c).unwrap()).collect()
}

fn check_bytes(p: &Prepared, input: &[u8], sched: &Sched) -> (Option<String>, usize, bool) {
    let chunks = sched.chunks(input);
    let rr = run(p, &chunks, true);
    let nontrivial = !rr.events.is_empty() || !rr.all_ok();
    if let Some(m) = rr.panicked() {
        return (Some(format!("panic: {m}")), rr.results.len(), nontrivial);
    }
    (None, rr.results.len(), nontrivial)
}

fn check_selector(sel: &str) -> Option<String> {
    let r = catch_unwind(AssertUnwindSafe(|| sel.parse::<lol_html::Selector>().is_ok()));
    match r {
        Err(e) => Some(format!("Selector::from_str({sel:?}) panicked: {}", panic_msg(e))),
        Ok(false) => None,
        Ok(true) => {
            // an accepted selector must also run
            let p = match Prepared::new(Cfg::with(vec![HSpec::obs(HKind::Element, sel), HSpec::obs(HKind::Text, sel)]).strict(false)) {
                Ok(p) => p,
                Err(_) => return None,
            };
            let doc = b"<a k=v class=c id=i><a><q k='V'></q></a><a></a></a><b><a>t</a></b>";
            let rr = run(&p, &[&doc[..9], &doc[9..]], true);
            rr.panicked().map(|m| format!("selector {sel:?} accepted, rewrite panicked: {m}"))
        }
    }
}

pub fn replay(case: &Value) -> Option<String> {
    match case["kind"].as_str()? {
        "bytes" => {
            let cfg: Cfg = serde_json::from_value(case["cfg"].clone()).ok()?;
            let input = unhex(case["input_hex"].as_str()?);
            let sched: Sched = serde_json::from_value(case["sched"].clone()).ok()?;
            check_bytes(&Prepared::new(cfg).ok()?, &input, &sched).0
        }
        "selector" => check_selector(case["selector"].as_str()?),
        "setter" => {
            let m = crate::props::c08::replay(case)?;
            if m.starts_with("panic") { Some(m) } else { None }
        }
        "shape" => shape_check(case["shape"].as_str()?, case["n"].as_u64()? as usize),
        "hang" => {
            // re-executes the recorded case; if it hangs again the watchdog reports it
            let cfg: Cfg = serde_json::from_value(case["cfg"].clone()).ok()?;
            let chunks: Vec<Vec<u8>> = case["chunks_hex"].as_array()?.iter().map(|c| unhex(c.as_str().unwrap_or(""))).collect();
            let refs: Vec<&[u8]> = chunks.iter().map(|c| c.as_slice()).collect();
            let rr = run(&Prepared::new(cfg).ok()?, &refs, true);
            rr.panicked().map(|m| format!("panic: {m}"))
        }
        _ => None,
    }
}

// ---------------------------------------------------------------------------------------------
// scaled shapes (run in a child process: a stack overflow or a hang must not take the checker down)
// ---------------------------------------------------------------------------------------------

pub const SHAPES: &[&str] = &[
    "nest-noselector", "nest-selector", "nest-nth-of-type", "stray-end-tags", "long-tag-name", "long-comment", "long-attr", "long-text",
    "many-attrs", "many-selectors", "deep-not-selector", "nest-close-all", "many-text-nodes-sjis",
    "deep-not-selector-after-escaped-dquote", "deep-not-selector-after-escaped-squote", "deep-not-selector-after-escaped-ident", "deep-not-selector-in-list",
    "deep-not-selector-after-quote-in-comment", "deep-not-selector-after-bad-string", "deep-not-selector-after-escaped-quote-in-ident",
    "nest-end-tag-handlers", "many-selectors-distinct", "big-insert-legacy", "big-insert-utf8", "big-streaming-insert-legacy", "big-attr-value-set",
];

fn cpu_seconds() -> f64 {
    let mut ru: libc::rusage = unsafe { std::mem::zeroed() };
    unsafe { libc::getrusage(libc::RUSAGE_SELF, &mut ru) };
    // user time only: system time (page faults, allocation under memory pressure) depends on what
    // else the machine is doing, not on the work the library does
    ru.ru_utime.tv_sec as f64 + ru.ru_utime.tv_usec as f64 / 1e6
}

/// Executed in the child: build the shape at size n, run it, print CPU seconds.
pub fn shape_child(shape: &str, n: usize) -> i32 {
    let obs = |sel: &str| Cfg::with(vec![HSpec { log: false, ..HSpec::obs(HKind::Element, sel) }]).strict(false);
    let (cfg, doc): (Cfg, Vec<u8>) = match shape {
        "nest-noselector" => (Cfg::default(), "<div>".repeat(n).into_bytes()),
        "nest-selector" => (obs("div > div"), "<div>".repeat(n).into_bytes()),
        "nest-nth-of-type" => (obs("div:nth-of-type(2) span"), "<div><span>".repeat(n / 2).into_bytes()),
        "stray-end-tags" => (obs("*"), format!("<a><b>{}", "</i></b></x>".repeat(n / 3)).into_bytes()),
        "long-tag-name" => (obs("*"), format!("<{}>", "a".repeat(n * 10)).into_bytes()),
        "long-comment" => (Cfg::with(vec![HSpec { log: false, ..HSpec::obs(HKind::DocComments, "") }]), format!("<!--{}-->", "-x".repeat(n * 5)).into_bytes()),
        "long-attr" => (obs("*"), format!("<a b=\"{}\">", "v".repeat(n * 10)).into_bytes()),
        "long-text" => (Cfg::with(vec![HSpec { log: false, ..HSpec::obs(HKind::DocText, "") }]), "t\u{e9}".repeat(n * 3).into_bytes()),
        "many-attrs" => (Cfg::with(vec![HSpec { log: false, ..HSpec::with_ops(HKind::Element, "a[zz]", vec![Op::GetAttr("nope".into()), Op::SetAttr("q".into(), "1".into())]) }]).strict(false), format!("<a {} zz>", (0..n / 20).map(|i| format!("k{i}=v")).collect::<Vec<_>>().join(" ")).into_bytes()),
        "many-selectors" => (
            Cfg::with((0..n / 50).map(|i| HSpec { log: false, ..HSpec::obs(HKind::Element, &format!("div.c{i} > span[k{i}]")) }).collect()).strict(false),
            "<div class=c1><span k1></span></div>".repeat(200).into_bytes(),
        ),
        // one inserted content piece of several hundred KiB .. MiB (encoder scratch buffers)
        "big-insert-legacy" => (
            Cfg::with(vec![HSpec { log: false, ..HSpec::with_ops(HKind::Element, "a", vec![Op::After("\u{e9}x".repeat(n * 3), true), Op::Prepend("\u{416}".repeat(n), false)]) }]).strict(false).enc("windows-1252"),
            b"<a>t</a>".to_vec(),
        ),
        "big-insert-utf8" => (
            Cfg::with(vec![HSpec { log: false, ..HSpec::with_ops(HKind::Element, "a", vec![Op::Before("\u{e9}<".repeat(n * 3), false)]) }, HSpec { log: false, ..HSpec::with_ops(HKind::DocEnd, "", vec![Op::Append("\u{20ac}".repeat(n * 2), true)]) }]).strict(false),
            b"<a>t</a>".to_vec(),
        ),
        "big-streaming-insert-legacy" => (
            Cfg::with(vec![HSpec { log: false, ..HSpec::with_ops(HKind::Element, "a", vec![Op::Append("\u{30a2}y".repeat(n * 3), true)]) }]).strict(false).enc("Shift_JIS").streaming(true),
            b"<a>t</a>".to_vec(),
        ),
        "big-attr-value-set" => (
            Cfg::with(vec![HSpec { log: false, ..HSpec::with_ops(HKind::Element, "a", vec![Op::SetAttr("k".into(), "\u{e9}\"".repeat(n * 2)), Op::SetAttr("j".into(), "v".repeat(n * 5))]) }]).strict(false).enc("windows-1252"),
            b"<a k=1>t</a>".to_vec(),
        ),
        "many-selectors-distinct" => (
            Cfg::with((0..(n / 1000).max(70)).map(|i| HSpec { log: false, ..HSpec::obs(HKind::Element, &format!("x{i}")) }).collect()).strict(false),
            "<x1><x69><x70></x70></x69></x1>".repeat(200).into_bytes(),
        ),
        s if s.starts_with("deep-not-selector") => {
            let depth = n / 100;
            // strings, escapes and selector lists in front of the nesting must not defeat the
            // depth guard of the selector parser
            let prefix = match s {
                "deep-not-selector-after-escaped-dquote" => "[title=\"\\\"\"]",
                "deep-not-selector-after-escaped-squote" => "[title='it\\'s']",
                "deep-not-selector-after-escaped-ident" => "a\\(b",
                "deep-not-selector-in-list" => "b, [k=\")\"]",
                "deep-not-selector-after-quote-in-comment" => "a/*\"*/",
                "deep-not-selector-after-escaped-quote-in-ident" => "a\\\".c\\'d#x\\'",
                "deep-not-selector-after-bad-string" => "a[k=\"x\n],b",
                _ => "",
            };
            let sel = format!("{prefix}{}a{}", ":not(".repeat(depth), ")".repeat(depth));
            let r = catch_unwind(AssertUnwindSafe(|| sel.parse::<lol_html::Selector>().is_ok()));
            if r.is_err() {
                println!("PANIC");
                return 1;
            }
            println!("CPU {:.4}", cpu_seconds());
            return 0;
        }
        // every open element carries an end-tag handler registered at run time
        "nest-end-tag-handlers" => (Cfg::with(vec![HSpec { log: false, ..HSpec::obs_end_tag("a") }]).strict(false), format!("{}{}", "<a>".repeat(n), "</a>".repeat(n / 2)).into_bytes()),
        "nest-close-all" => (obs("a"), format!("{}{}", "<a>".repeat(n), "</a>".repeat(n)).into_bytes()),
        "many-text-nodes-sjis" => (Cfg::with(vec![HSpec { log: false, ..HSpec::obs(HKind::DocText, "") }]).enc("Shift_JIS"), [0x83u8, 0x41, b'<', b'b', b'>'].repeat(n)),
        _ => return 2,
    };
    let p = Prepared::new(cfg).unwrap();
    let chunks: Vec<&[u8]> = doc.chunks(4096).collect();
    let rr = run(&p, &chunks, true);
    if rr.panicked().is_some() {
        println!("PANIC {}", rr.panicked().unwrap());
        return 1;
    }
    println!("CPU {:.4}", cpu_seconds());
    0
}

fn run_child(shape: &str, n: usize) -> Result<f64, String> {
    let exe = std::env::current_exe().map_err(|e| e.to_string())?;
    let mut child = std::process::Command::new(exe)
        .args(["C15", "--shape", shape, "--n", &n.to_string()])
        .stdout(std::process::Stdio::piped())
        .stderr(std::process::Stdio::null())
        .spawn()
        .map_err(|e| format!("MACHINERY: cannot start the child process: {e}"))?;
    let start = std::time::Instant::now();
    loop {
        match child.try_wait() {
            Ok(Some(status)) => {
                let mut out = String::new();
                use std::io::Read;
                child.stdout.take().unwrap().read_to_string(&mut out).ok();
                if !status.success() {
                    return Err(format!("child exited with {status} ({})", out.trim()));
                }
                return out
                    .lines()
                    .find_map(|l| l.strip_prefix("CPU ").and_then(|v| v.trim().parse::<f64>().ok()))
                    .ok_or_else(|| format!("no CPU line in child output: {out:?}"));
            }
            Ok(None) => {
                // the limit is on the child's own CPU time (a busy machine stretches wall time);
                // wall time only catches a child that neither finishes nor computes
                let cpu = std::fs::read_to_string(format!("/proc/{}/stat", child.id()))
                    .ok()
                    .and_then(|st| {
                        let rest = st.rsplit_once(')')?.1.to_string();
                        let f: Vec<&str> = rest.split_whitespace().collect();
                        Some((f.get(11)?.parse::<f64>().ok()? + f.get(12)?.parse::<f64>().ok()?) / 100.0)
                    })
                    .unwrap_or(0.0);
                if cpu > 120.0 || start.elapsed().as_secs() > 1200 {
                    let _ = child.kill();
                    return Err(format!("child did not finish within 120 s of CPU time (used {cpu:.0} s; hang or super-linear work)"));
                }
                std::thread::sleep(std::time::Duration::from_millis(20));
            }
            Err(e) => return Err(e.to_string()),
        }
    }
}

fn shape_check(shape: &str, n: usize) -> Option<String> {
    let t1 = match run_child(shape, n) {
        Ok(t) => t,
        Err(e) => return Some(format!("shape {shape} at n={n}: {e}")),
    };
    let t4 = match run_child(shape, 4 * n) {
        Ok(t) => t,
        Err(e) => return Some(format!("shape {shape} at n={}: {e}", 4 * n)),
    };
    if t4 <= 9.0 * t1 + 0.05 {
        return None;
    }
    // CPU time is a noisy observation on a busy machine: measure both sizes twice more and judge
    // the smallest time seen for each (noise only ever adds time). (Not for the shape with a
    // listed finding: its outcome never fails the check, and re-measuring a quadratic shape is
    // expensive.)
    let (mut t1, mut t4) = (t1, t4);
    let listed = shape == "many-selectors";
    for _ in 0..if listed { 0 } else { 2 } {
        if let Ok(t) = run_child(shape, n) {
            t1 = t1.min(t);
        }
        if let Ok(t) = run_child(shape, 4 * n) {
            t4 = t4.min(t);
        }
        if t4 <= 9.0 * t1 + 0.05 {
            return None;
        }
    }
    Some(format!("shape {shape}: CPU {t1:.3}s at n={n} but {t4:.3}s at n={} (smallest time measured for each; more than 9x + 50ms: work is not proportional to input size)", 4 * n))
}

pub fn run_check(ctx: &Ctx) -> i32 {
    let quick = ctx.quick();
    let cfgs = configs();
    let k = F.len();
    let lv = Levels { l1: true, l2_max_len: 0, bytewise: true, empties: true };
    let sweep = |name: &str, space: Space| {
        sweep_space(ctx, name, space, &|i, raw| {
            let mut scheds = vec![];
            for p in &cfgs {
                let input = adapt_to_encoding(raw, p.encoding);
                schedules(input.len(), lv, &mut scheds);
                for s in std::iter::once(&Sched::whole()).chain(scheds.iter()) {
                    let (m, calls, nt) = check_bytes(p, &input, s);
                    ctx.exec(calls);
                    ctx.outcomes.insert(digest(&(calls, nt, m.is_some(), p.cfg.handlers.len())));
                    ctx.validated(1);
                    if nt {
                        ctx.nontrivial.insert(digest(&input));
                    }
                    if let Some(msg) = m {
                        let case = json!({"kind": "bytes", "cfg": p.cfg, "input_hex": hex(&input), "input_lossy": lossy(&input), "sched": s});
                        let c2 = case.clone();
                        ctx.violation(msg, case, &|| replay(&c2));
                    }
                }
            }
            ctx.states.insert(digest(raw));
            if i % 100_003 == 9 {
                ctx.sample(json!({"kind": "bytes", "input": lossy(raw), "configs": cfgs.len()}));
            }
        });
    };
    // one configuration capturing everything (incl. on_end_tag on every element), deeper inputs
    {
        let one = &cfgs[1..2];
        let l1only = Levels { l1: true, l2_max_len: 0, bytewise: false, empties: false };
        sweep_space(ctx, "(a) F<=3 x all-capturing config x L0,L1", Space::Frags { k, max: 3 }, &|i, raw| {
            let mut scheds = vec![];
            for p in one {
                schedules(raw.len(), l1only, &mut scheds);
                for s in std::iter::once(&Sched::whole()).chain(scheds.iter()) {
                    let (m, calls, nt) = check_bytes(p, raw, s);
                    ctx.exec(calls);
                    ctx.validated(1);
                    if nt {
                        ctx.nontrivial.insert(digest(raw));
                    }
                    if let Some(msg) = m {
                        let case = json!({"kind": "bytes", "cfg": p.cfg, "input_hex": hex(raw), "input_lossy": lossy(raw), "sched": s});
                        let c2 = case.clone();
                        ctx.violation(msg, case, &|| replay(&c2));
                    }
                }
            }
            let _ = i;
        });
    }
    if quick {
        sweep("(a) B16<=5 x 7 configs x L0,L1,LB,LE", Space::Bytes { max: 5 });
        sweep("(a) F<=2 x 7 configs x L0,L1,LB,LE", Space::Frags { k, max: 2 });
        sweep("(a) 18 contexts x B16<=3 x 7 configs", Space::CtxBytes { max: 3 });
    } else {
        sweep("(a) B16<=6 x 7 configs x L0,L1,LB,LE", Space::Bytes { max: 6 });
        sweep("(a) F<=3 x 7 configs x L0,L1,LB,LE", Space::Frags { k, max: 3 });
        sweep("(a) 18 contexts x B16<=4 x 7 configs", Space::CtxBytes { max: 4 });
    }
    // (e) long text runs: a valid prefix around the decoder's 1 KiB buffer size, then a tail that is
    // malformed, incomplete or split by a write boundary, with and without text handlers
    {
        let tails: &[&[u8]] = &[b"", &[0xC3], &[0xFF], &[0xC3, 0xA9], &[0xE2, 0x82], &[0x83], &[0x83, 0x41], b"<", &[0xE9], b"</a>"];
        let lens = [1000usize, 1022, 1023, 1024, 1025, 1026, 2047, 2048, 2049, 3071, 3072, 3073];
        let posts: &[&[u8]] = &[b"", b"y", b"</a>z"];
        let mut lcfgs = vec![];
        for enc in ["UTF-8", "windows-1252", "Shift_JIS", "gb18030"] {
            lcfgs.push(Prepared::new(Cfg::with(vec![HSpec::obs(HKind::DocText, "")]).strict(false).enc(enc)).unwrap());
            lcfgs.push(Prepared::new(Cfg::with(vec![HSpec::obs(HKind::Text, "a"), HSpec::obs_end_tag("a")]).strict(false).enc(enc)).unwrap());
            lcfgs.push(Prepared::new(Cfg::default().enc(enc)).unwrap());
        }
        let njobs = tails.len() * lens.len() * posts.len();
        par_for(njobs, 1, |j| {
            let tail = tails[j % tails.len()];
            let len = lens[(j / tails.len()) % lens.len()];
            let post = posts[j / tails.len() / lens.len()];
            for lead in [&b"<a>"[..], &b"<a>\xC3\xA9"[..]] {
                let mut doc = lead.to_vec();
                doc.extend(std::iter::repeat_n(b'x', len));
                let tail_at = doc.len();
                doc.extend_from_slice(tail);
                doc.extend_from_slice(post);
                let mut scheds = vec![Sched::whole()];
                for c in tail_at.saturating_sub(2)..doc.len() {
                    if c > 0 {
                        scheds.push(Sched { cuts: vec![c], empty_at: None });
                    }
                }
                scheds.push(Sched { cuts: vec![lead.len(), tail_at], empty_at: None });
                for p in &lcfgs {
                    for sc in &scheds {
                        let (m, calls, nt) = check_bytes(p, &doc, sc);
                        ctx.exec(calls);
                        ctx.validated(1);
                        if nt {
                            ctx.nontrivial.insert(digest(&(&doc, &sc.cuts)));
                        }
                        if let Some(msg) = m {
                            let case = json!({"kind": "bytes", "cfg": p.cfg, "input_hex": hex(&doc), "input_lossy": format!("<a>x*{len} + tail {:?}", tail), "sched": sc});
                            let c2 = case.clone();
                            ctx.violation(msg, case, &|| replay(&c2));
                        }
                    }
                }
            }
        });
        ctx.level_done("(e) text runs of 1000..3073 valid bytes + 10 malformed/incomplete/split tails x 12 configs (4 encodings x {doc text, scoped text, none}) x cuts around the tail");
    }
    // (b) selector strings
    let smax = if quick { 4 } else { 5 };
    let n = count_upto(CSS.len(), smax);
    par_for(n, 64, |i| {
        let mut idx = vec![];
        seq_at(i, CSS.len(), &mut idx);
        let sel: String = idx.iter().map(|&j| CSS[j]).collect();
        ctx.exec(1);
        ctx.validated(1);
        ctx.states.insert(digest(&sel));
        if let Some(msg) = check_selector(&sel) {
            let case = json!({"kind": "selector", "selector": sel});
            let c2 = case.clone();
            ctx.violation(msg, case, &|| replay(&c2));
        }
        if i % 50_021 == 1 {
            ctx.sample(json!({"kind": "selector", "selector": sel}));
        }
    });
    ctx.level_done(&format!("(b) every selector string over {} CSS tokens, len<={smax}: parse (+ rewrite when accepted)", CSS.len()));
    // (b') a wider token menu (pseudo-elements, functional pseudo-classes the parser knows but the
    // library rejects, sibling combinators, namespaces, comments, quotes, escapes), shorter strings
    const CSS2: &[&str] = &[
        "a", "*", ".c", "[k]", ":not(", ")", "::before", "::after", ":hover", ":is(", ":where(", ":has(", "::slotted(", ":host(", "::part(", "+", "~", "|", "*|", "/*", "*/", "\"", "'",
        "\\", ",", " ", ">", ":nth-child(", "2n+1", "of", ":first-child", "!", "@", "\n",
    ];
    let smax2 = if quick { 3 } else { 4 };
    let n2 = count_upto(CSS2.len(), smax2);
    par_for(n2, 64, |i| {
        let mut idx = vec![];
        seq_at(i, CSS2.len(), &mut idx);
        let sel: String = idx.iter().map(|&j| CSS2[j]).collect();
        ctx.exec(1);
        ctx.validated(1);
        if let Some(msg) = check_selector(&sel) {
            let case = json!({"kind": "selector", "selector": sel});
            let c2 = case.clone();
            ctx.violation(msg, case, &|| replay(&c2));
        }
    });
    ctx.level_done(&format!("(b') every selector string over a wider menu of {} CSS tokens (pseudo-elements, :is/:where/:has/::slotted/:host, sibling combinators, namespaces, comments, quotes, escapes), len<={smax2}", CSS2.len()));
    // (c) setters
    let sig = SIGMA.len();
    let n = count_upto(sig, 3);
    par_for(n, 32, |i| {
        let mut idx = vec![];
        seq_at(i, sig, &mut idx);
        let s: String = idx.iter().map(|&j| SIGMA[j]).collect();
        for sink in 0..14u64 {
            for enc in ["UTF-8", "Shift_JIS"] {
                let case = json!({"kind": "setter", "sink": sink, "string": s, "encoding": enc});
                ctx.exec(2);
                ctx.validated(1);
                if let Some(msg) = replay(&case) {
                    let c2 = case.clone();
                    ctx.violation(msg, case, &|| replay(&c2));
                }
            }
        }
    });
    ctx.level_done("(c) every Sigma-string len<=3 x 14 setters/insertion points x {UTF-8, Shift_JIS}: no panic");
    // (d) scaled shapes
    let base = if quick { 100_000 } else { 400_000 };
    for shape in SHAPES {
        ctx.exec(2);
        ctx.validated(1);
        if let Some(msg) = shape_check(shape, base) {
            if msg.contains("MACHINERY") {
                *ctx.machinery_error.lock().unwrap() = Some(msg);
                continue;
            }
            // timing may differ between runs: confirm once more before reporting (a time-out or a
            // crash of the child is reported at once)
            let listed = *shape == "many-selectors";
            let confirm = if msg.contains("not proportional") && !listed { shape_check(shape, base) } else { Some(msg.clone()) };
            if let Some(msg2) = confirm {
                let case = json!({"kind": "shape", "shape": shape, "n": base});
                let _ = msg;
                if *shape == "many-selectors" && msg2.contains("not proportional") {
                    ctx.known_or_violation("selector-set-compile-quadratic", msg2.clone(), case, &|| Some(msg2.clone()));
                } else {
                    let (sh, b) = (shape.to_string(), base);
                    ctx.violation_timing(msg2, case, &move || shape_check(&sh, b));
                }
            }
        }
    }
    ctx.sample(json!({"kind": "shape", "shapes": SHAPES, "n": base, "n4": 4 * base}));
    ctx.level_done(&format!("(d) {} scaled shapes at n={base} and 4n in a child process (CPU ratio, exit status, 120 s CPU limit)", SHAPES.len()));
    ctx.finish(
        "model_checking",
        RULE,
        &[
            "panics are observed through catch_unwind in a release build with debug assertions and overflow checks on; aborts/stack overflows and hangs only in the scaled-shape child processes",
            "CPU-time ratio test (4n vs n, factor 9 + 50 ms) is a coarse super-linearity detector, not a complexity proof",
        ],
        true,
    )
}
