//! C17 C API is a faithful, memory-safe, non-unwinding wrapper of the Rust API.

use crate::alpha::*;
use crate::cdrive::*;
use crate::common::*;
use crate::drive::*;
use crate::explore::*;
use libc::{c_char, c_void};
use serde_json::{Value, json};

const RULE: &str = "mirrored handler scripts (observers of every unit, marker handlers, attribute/tag-name/comment edits, end-tag handlers) over every F<=k input x {single write, every 1-cut} x 3 free orders permitted by lol_html.h, executed through the extern \"C\" entry points and through the Rust API: sink bytes, call results and every accessor value must be equal; error injections: Stop at every handler index, invalid UTF-8 arguments to every string-taking function, bad selectors, unknown / non-ASCII-compatible encodings, tiny memory limits, NULL / half-initialised streaming handlers: reported through return codes and a non-empty last-error string that a second take clears; the whole lifecycle exploration is re-run under valgrind memcheck + leak check; non-trivial = distinct (input, config) where at least one C handler ran";

fn strip(evs: &[Ev]) -> Vec<Ev> {
    let mut v = evs.to_vec();
    for e in &mut v {
        if let Ev::El { attrs, .. } = e {
            for a in attrs {
                a.nloc = None;
                a.vloc = None;
            }
        }
    }
    v
}

fn configs() -> Vec<Cfg> {
    let mut everything = observer_menu().pop().unwrap().1;
    everything.push(HSpec::obs_end_tag("*"));
    let markers = marker_menu();
    let mut v = vec![Cfg::with(everything.clone()), Cfg::with(everything).strict(false).enc("windows-1252")];
    for (i, (_, hs)) in markers.into_iter().enumerate() {
        v.push(Cfg::with(hs.clone()).strict(false));
        // the same insertions through the streaming entry points (element, end tag, text chunk)
        if i < 3 {
            v.push(Cfg::with(hs).strict(false).streaming(true).enc(if i == 1 { "windows-1252" } else { "UTF-8" }));
        }
    }
    v.push(
        Cfg::with(vec![
            HSpec { end_tag_ops: Some(vec![Op::Before("\x01e\x02".into(), true), Op::SetText("zz".into())]), ..HSpec::with_ops(HKind::Element, "a", vec![Op::GetAttr("b".into()), Op::SetAttr("k".into(), "v\"".into()), Op::RemoveAttr("B".into()), Op::SetTagName("q".into()), Op::SetInner("<i>".into(), false)]) },
            HSpec::with_ops(HKind::DocComments, "", vec![Op::SetText("x".into()), Op::Before("b".into(), false)]),
            HSpec::with_ops(HKind::DocDoctype, "", vec![Op::Remove]),
            HSpec::with_ops(HKind::DocEnd, "", vec![Op::Append("\u{e9}<".into(), false)]),
        ])
        .strict(false),
    );
    // streaming insertion of non-ASCII content: the second half starts with a multi-byte character,
    // so the UTF-8 chunks are split inside it (with an empty chunk in between)
    v.push(
        Cfg::with(vec![
            HSpec { end_tag_ops: Some(vec![Op::Before("\u{e9}\u{20ac}x".into(), true)]), ..HSpec::with_ops(HKind::Element, "a", vec![Op::Before("\u{e9}\u{20ac}x".into(), true), Op::Append("ab\u{1f600}".into(), false)]) },
            HSpec { last_only: true, ..HSpec::with_ops(HKind::DocText, "", vec![Op::After("\u{416}\u{416}".into(), false)]) },
        ])
        .strict(false)
        .streaming(true),
    );
    // empty content: replace("") / set_inner_content("") still remove, before("") etc. are no-ops
    v.push(
        Cfg::with(vec![
            HSpec { end_tag_ops: Some(vec![Op::Replace("".into(), true)]), ..HSpec::with_ops(HKind::Element, "a", vec![Op::Before("".into(), true), Op::SetInner("".into(), false), Op::After("".into(), false)]) },
            HSpec::with_ops(HKind::DocComments, "", vec![Op::Replace("X".into(), true), Op::Replace("".into(), true)]),
            HSpec { last_only: true, ..HSpec::with_ops(HKind::DocText, "", vec![Op::Replace("".into(), false)]) },
            HSpec::with_ops(HKind::Element, "b", vec![Op::Replace("".into(), true)]),
        ])
        .strict(false),
    );
    v.push(Cfg { esi: true, ..Cfg::with(vec![HSpec::obs(HKind::Element, "*")]) });
    // the ESI entry point with strict off (its two trailing booleans must not be confused)
    v.push(Cfg { esi: true, ..Cfg::with(vec![HSpec::obs(HKind::Element, "*"), HSpec::obs(HKind::DocText, "")]).strict(false) });
    v
}

/// Compare one Rust run with one C run of the same configuration and call sequence.
fn compare(cfg: &Cfg, chunks: &[&[u8]], order: FreeOrder) -> (Option<String>, usize, bool) {
    let p = Prepared::new(cfg.clone()).unwrap();
    let r = run(&p, chunks, true);
    let c = run_c(cfg, chunks, true, order);
    let calls = r.results.len() + c.rr.results.len();
    let ran = !c.rr.events.is_empty();
    if let Some(e) = &c.build_failed {
        return (Some(format!("C build failed: {e}")), calls, ran);
    }
    if let Some(m) = r.panicked() {
        return (Some(format!("Rust run panicked: {m}")), calls, ran);
    }
    let shape = |rr: &RunResult| rr.results.iter().map(|x| x.is_ok()).collect::<Vec<_>>();
    if shape(&r) != shape(&c.rr) {
        return (Some(format!("call results differ: Rust {:?} vs C {:?}", r.results.iter().map(|x| x.short()).collect::<Vec<_>>(), c.rr.results.iter().map(|x| x.short()).collect::<Vec<_>>())), calls, ran);
    }
    if r.out != c.rr.out {
        return (Some(format!("sink bytes differ: Rust {:?} vs C {:?}", lossy(&r.out), lossy(&c.rr.out))), calls, ran);
    }
    let (er, ec) = (strip(&r.events), strip(&c.rr.events));
    if er != ec {
        let i = er.iter().zip(ec.iter()).position(|(a, b)| a != b).unwrap_or(er.len().min(ec.len()));
        return (Some(format!("accessor values differ at event #{i}: Rust {:?} vs C {:?}", er.get(i), ec.get(i))), calls, ran);
    }
    // failures: reported through the return code + a non-empty last error that is then cleared
    if let Some((_, CallRes::Err(kind, msg))) = r.first_failure() {
        let cerr = c.errors.first().cloned().flatten();
        match cerr {
            None => return (Some("C call failed but lol_html_take_last_error() returned NULL".into()), calls, ran),
            Some(e) if e.is_empty() => return (Some("empty last-error string".into()), calls, ran),
            Some(e) => {
                if *kind != ERR_HANDLER && e != *msg {
                    return (Some(format!("last error {:?} differs from the Rust error {:?}", e, msg)), calls, ran);
                }
            }
        }
        if !c.error_cleared {
            return (Some("take_last_error did not clear the error".into()), calls, ran);
        }
    }
    (None, calls, ran)
}

// ---------------------------------------------------------------------------------------------
// argument-error injections
// ---------------------------------------------------------------------------------------------

mod inj {
    use super::*;
    use lol_html::html_content::{Comment, Element};
    use lolhtml::comment::*;
    use lolhtml::element::*;
    use lolhtml::rewriter::*;
    use lolhtml::rewriter_builder::*;
    use lolhtml::selector::*;
    use lolhtml::streaming::CStreamingHandler;
    use lolhtml::RewriterDirective;
    use std::sync::Mutex;

    pub struct State {
        pub problems: Vec<String>,
        pub out: Vec<u8>,
        pub drops: usize,
    }

    const BAD: &[u8] = b"a\xFFb";

    fn expect_err(st: &mut State, what: &str, rc: i32) {
        let e = take_last_error();
        if rc != -1 {
            st.problems.push(format!("{what}: invalid UTF-8 accepted (rc {rc})"));
        }
        if e.as_deref().unwrap_or("").is_empty() {
            st.problems.push(format!("{what}: no last-error string"));
        }
        if take_last_error().is_some() {
            st.problems.push(format!("{what}: last error not cleared by take"));
        }
    }

    unsafe extern "C" fn drop_cb(ud: *mut c_void) {
        let st = unsafe { &*(ud as *const Mutex<State>) };
        st.lock().unwrap().drops += 1;
    }

    unsafe extern "C" fn write_cb(sink: &mut lolhtml::streaming::CStreamingHandlerSink<'_>, _ud: *mut c_void) -> i32 {
        unsafe {
            let s = "S<";
            lolhtml::streaming::lol_html_streaming_sink_write_str(sink, s.as_ptr() as *const c_char, s.len(), false);
            // a character split over two writes, then invalid UTF-8 (must be refused)
            let a = [0xC3u8];
            let b = [0xA9u8];
            lolhtml::streaming::lol_html_streaming_sink_write_utf8_chunk(sink, a.as_ptr() as *const c_char, 1, true);
            lolhtml::streaming::lol_html_streaming_sink_write_utf8_chunk(sink, b.as_ptr() as *const c_char, 1, true);
            let rc = lolhtml::streaming::lol_html_streaming_sink_write_utf8_chunk(sink, BAD.as_ptr() as *const c_char, BAD.len(), true);
            let _ = take_last_error();
            if rc == 0 { 7 } else { 0 }
        }
    }

    unsafe extern "C" fn el(el: *mut Element, ud: *mut c_void) -> RewriterDirective {
        let m = unsafe { &*(ud as *const Mutex<State>) };
        let mut st = m.lock().unwrap();
        let (d, l) = (BAD.as_ptr() as *const c_char, BAD.len());
        unsafe {
            expect_err(&mut st, "element_before", lol_html_element_before(el, d, l, true));
            expect_err(&mut st, "element_after", lol_html_element_after(el, d, l, false));
            expect_err(&mut st, "element_prepend", lol_html_element_prepend(el, d, l, true));
            expect_err(&mut st, "element_append", lol_html_element_append(el, d, l, true));
            expect_err(&mut st, "element_set_inner_content", lol_html_element_set_inner_content(el, d, l, true));
            expect_err(&mut st, "element_replace", lol_html_element_replace(el, d, l, true));
            expect_err(&mut st, "element_set_attribute(name)", lol_html_element_set_attribute(el, d, l, b"v".as_ptr() as *const c_char, 1));
            expect_err(&mut st, "element_set_attribute(value)", lol_html_element_set_attribute(el, b"k".as_ptr() as *const c_char, 1, d, l));
            expect_err(&mut st, "element_tag_name_set", lol_html_element_tag_name_set(el, d, l));
            expect_err(&mut st, "element_tag_name_set(forbidden)", lol_html_element_tag_name_set(el, b"a b".as_ptr() as *const c_char, 3));
            expect_err(&mut st, "element_remove_attribute", lol_html_element_remove_attribute(el, d, l));
            expect_err(&mut st, "element_has_attribute", lol_html_element_has_attribute(el, d, l));
            // NULL streaming handler and a half-initialised one
            let rc = lol_html_element_streaming_before(el, std::ptr::null_mut());
            if rc != -1 {
                st.problems.push("NULL streaming handler accepted".into());
            }
            let mut reserved = CStreamingHandler { user_data: ud, write_all_callback: Some(write_cb), drop_callback: Some(drop_cb), reserved: 1 as *mut c_void };
            let rc = lol_html_element_streaming_before(el, &mut reserved);
            if rc != -1 {
                st.problems.push("streaming handler with reserved != NULL accepted".into());
            }
            std::mem::forget(reserved);
            let mut no_cb = CStreamingHandler { user_data: ud, write_all_callback: None, drop_callback: None, reserved: std::ptr::null_mut() };
            let rc = lol_html_element_streaming_after(el, &mut no_cb);
            if rc != -1 {
                st.problems.push("streaming handler without write callback accepted".into());
            }
            std::mem::forget(no_cb);
            // a good one: S&lt;é before the element; its drop callback must run exactly once
            let mut good = CStreamingHandler { user_data: ud, write_all_callback: Some(write_cb), drop_callback: Some(drop_cb), reserved: std::ptr::null_mut() };
            drop(st);
            let rc = lol_html_element_streaming_before(el, &mut good);
            std::mem::forget(good);
            if rc != 0 {
                m.lock().unwrap().problems.push("valid streaming handler refused".into());
            }
        }
        RewriterDirective::Continue
    }

    unsafe extern "C" fn comment(c: *mut Comment, ud: *mut c_void) -> RewriterDirective {
        let m = unsafe { &*(ud as *const Mutex<State>) };
        let mut st = m.lock().unwrap();
        let (d, l) = (BAD.as_ptr() as *const c_char, BAD.len());
        unsafe {
            expect_err(&mut st, "comment_text_set", lol_html_comment_text_set(c, d, l));
            expect_err(&mut st, "comment_text_set(-->)", lol_html_comment_text_set(c, b"-->".as_ptr() as *const c_char, 3));
            expect_err(&mut st, "comment_before", lol_html_comment_before(c, d, l, true));
        }
        RewriterDirective::Continue
    }

    unsafe extern "C" fn sink(chunk: *const c_char, len: usize, ud: *mut c_void) {
        let m = unsafe { &*(ud as *const Mutex<State>) };
        m.lock().unwrap().out.extend_from_slice(unsafe { std::slice::from_raw_parts(chunk as *const u8, len) });
    }

    /// Every string-taking entry point with invalid UTF-8; bad selectors and encodings.
    pub fn run() -> Vec<String> {
        let st = Mutex::new(State { problems: vec![], out: vec![], drops: 0 });
        let ud = &st as *const _ as *mut c_void;
        let null = std::ptr::null_mut();
        unsafe {
            let _ = take_last_error();
            // selectors
            for (sel, want) in [(&b"a\xFF"[..], None), (b"a >", Some("Dangling combinator in selector.")), (b"a + b", Some("Unsupported combinator `+` in selector.")), (b"", Some("The selector is empty."))] {
                let s = lol_html_selector_parse(sel.as_ptr() as *const c_char, sel.len());
                let e = take_last_error();
                if !s.is_null() {
                    st.lock().unwrap().problems.push(format!("bad selector {:?} accepted", lossy(sel)));
                    lol_html_selector_free(s);
                }
                match (e, want) {
                    (None, _) => st.lock().unwrap().problems.push(format!("selector {:?}: no last error", lossy(sel))),
                    (Some(e), Some(w)) if e != w => st.lock().unwrap().problems.push(format!("selector {:?}: last error {e:?}, Rust says {w:?}", lossy(sel))),
                    _ => {}
                }
                // the Rust error text is the reference
                if let (Ok(s), Some(w)) = (std::str::from_utf8(sel), want) {
                    let r = s.parse::<lol_html::Selector>().err().map(|e| e.to_string());
                    if r.as_deref() != Some(w) {
                        st.lock().unwrap().problems.push(format!("reference mismatch for selector {s:?}: {r:?}"));
                    }
                }
            }
            // two failures without a take in between: the LAST error is the one reported
            {
                let s1 = lol_html_selector_parse(b"a >".as_ptr() as *const c_char, 3);
                let s2 = lol_html_selector_parse(b"a + b".as_ptr() as *const c_char, 5);
                let e = take_last_error();
                if !s1.is_null() || !s2.is_null() {
                    st.lock().unwrap().problems.push("bad selector accepted".into());
                }
                if e.as_deref() != Some("Unsupported combinator `+` in selector.") {
                    st.lock().unwrap().problems.push(format!("after two failing calls the last error is {e:?}, expected the second call's error"));
                }
                if take_last_error().is_some() {
                    st.lock().unwrap().problems.push("last error not cleared after two failing calls".into());
                }
            }
            let sel = lol_html_selector_parse(b"a".as_ptr() as *const c_char, 1);
            let builder = lol_html_rewriter_builder_new();
            lol_html_rewriter_builder_add_element_content_handlers(builder, sel, Some(el), ud, Some(comment), ud, None, null);
            let ms = lol_html::MemorySettings::new();
            // encodings
            for (enc, want) in [("bogus", "Unknown character encoding has been provided."), ("utf-16", "Expected ASCII-compatible encoding."), ("replacement", "Unknown character encoding has been provided."), ("iso-2022-jp", "Expected ASCII-compatible encoding.")] {
                let r = lol_html_rewriter_build(builder, enc.as_ptr() as *const c_char, enc.len(), lol_html::MemorySettings::new(), sink, ud, true);
                let e = take_last_error();
                if !r.is_null() {
                    st.lock().unwrap().problems.push(format!("encoding {enc} accepted"));
                    lol_html_rewriter_free(r);
                }
                if e.as_deref() != Some(want) {
                    st.lock().unwrap().problems.push(format!("encoding {enc}: last error {e:?}, expected {want:?}"));
                }
            }
            let r = lol_html_rewriter_build(builder, b"utf-8".as_ptr() as *const c_char, 5, ms, sink, ud, true);
            let doc = b"<a b=c>x<!--c--></a>";
            let rc = lol_html_rewriter_write(r, doc.as_ptr() as *const c_char, doc.len());
            let rc2 = lol_html_rewriter_end(r);
            if rc != 0 || rc2 != 0 {
                st.lock().unwrap().problems.push(format!("write/end failed: {:?}", take_last_error()));
            }
            lol_html_rewriter_free(r);
            // the header allows building several rewriters from one builder
            let r2 = lol_html_rewriter_build(builder, b"utf-8".as_ptr() as *const c_char, 5, lol_html::MemorySettings::new(), sink, ud, true);
            lol_html_rewriter_builder_free(builder);
            let rc = lol_html_rewriter_write(r2, doc.as_ptr() as *const c_char, doc.len());
            let rc2 = lol_html_rewriter_end(r2);
            if rc != 0 || rc2 != 0 {
                st.lock().unwrap().problems.push(format!("second rewriter from the same builder: write/end failed: {:?}", take_last_error()));
            }
            lol_html_rewriter_free(r2);
            lol_html_selector_free(sel);
            // user data on rewritable units: NULL at first, kept between handlers of one token,
            // replaceable and resettable to NULL
            {
                unsafe extern "C" fn ud1(el: *mut Element, ud: *mut c_void) -> RewriterDirective {
                    let m = unsafe { &*(ud as *const Mutex<State>) };
                    unsafe {
                        if !lol_html_element_user_data_get(el).is_null() {
                            m.lock().unwrap().problems.push("element user data is not NULL initially".into());
                        }
                        lol_html_element_user_data_set(el, 0x1234 as *mut c_void);
                        if lol_html_element_user_data_get(el) as usize != 0x1234 {
                            m.lock().unwrap().problems.push("element user data not returned after set".into());
                        }
                    }
                    RewriterDirective::Continue
                }
                unsafe extern "C" fn ud2(el: *mut Element, ud: *mut c_void) -> RewriterDirective {
                    let m = unsafe { &*(ud as *const Mutex<State>) };
                    unsafe {
                        if lol_html_element_user_data_get(el) as usize != 0x1234 {
                            m.lock().unwrap().problems.push("element user data set by the first handler is not seen by the second".into());
                        }
                        lol_html_element_user_data_set(el, std::ptr::null_mut());
                        if !lol_html_element_user_data_get(el).is_null() {
                            m.lock().unwrap().problems.push("element user data reset to NULL is still set".into());
                        }
                    }
                    RewriterDirective::Continue
                }
                unsafe extern "C" fn ud3(el: *mut Element, ud: *mut c_void) -> RewriterDirective {
                    let m = unsafe { &*(ud as *const Mutex<State>) };
                    unsafe {
                        if !lol_html_element_user_data_get(el).is_null() {
                            m.lock().unwrap().problems.push("element user data is not NULL in the third handler after the reset".into());
                        }
                        lol_html_element_user_data_set(el, 0x42 as *mut c_void);
                        if lol_html_element_user_data_get(el) as usize != 0x42 {
                            m.lock().unwrap().problems.push("element user data cannot be replaced".into());
                        }
                    }
                    RewriterDirective::Continue
                }
                unsafe extern "C" fn udc(c: *mut Comment, ud: *mut c_void) -> RewriterDirective {
                    let m = unsafe { &*(ud as *const Mutex<State>) };
                    unsafe {
                        let cur = lol_html_comment_user_data_get(c) as usize;
                        // first handler sees NULL and sets 7; second sees 7 and resets
                        if cur == 0 {
                            lol_html_comment_user_data_set(c, 7 as *mut c_void);
                        } else if cur == 7 {
                            lol_html_comment_user_data_set(c, std::ptr::null_mut());
                            if !lol_html_comment_user_data_get(c).is_null() {
                                m.lock().unwrap().problems.push("comment user data reset to NULL is still set".into());
                            }
                            m.lock().unwrap().drops += 100;
                        } else {
                            m.lock().unwrap().problems.push(format!("comment user data has the unexpected value {cur}"));
                        }
                    }
                    RewriterDirective::Continue
                }
                let drops_before = st.lock().unwrap().drops;
                let sels: Vec<*mut lol_html::Selector> = [&b"a"[..], b"*", b"a[b]"].iter().map(|x| lol_html_selector_parse(x.as_ptr() as *const c_char, x.len())).collect();
                let builder = lol_html_rewriter_builder_new();
                lol_html_rewriter_builder_add_element_content_handlers(builder, sels[0], Some(ud1), ud, Some(udc), ud, None, null);
                lol_html_rewriter_builder_add_element_content_handlers(builder, sels[1], Some(ud2), ud, Some(udc), ud, None, null);
                lol_html_rewriter_builder_add_element_content_handlers(builder, sels[2], Some(ud3), ud, None, null, None, null);
                let r = lol_html_rewriter_build(builder, b"utf-8".as_ptr() as *const c_char, 5, lol_html::MemorySettings::new(), sink, ud, true);
                let before = st.lock().unwrap().out.len();
                let rc = lol_html_rewriter_write(r, doc.as_ptr() as *const c_char, doc.len());
                let rc2 = lol_html_rewriter_end(r);
                if rc != 0 || rc2 != 0 {
                    st.lock().unwrap().problems.push(format!("user-data scenario: write/end failed: {:?}", take_last_error()));
                }
                {
                    let mut g = st.lock().unwrap();
                    if g.drops != drops_before + 100 {
                        g.problems.push("comment user data set by the first handler was not seen by the second".into());
                    }
                    g.drops = drops_before;
                    g.out.truncate(before);
                }
                lol_html_rewriter_free(r);
                lol_html_rewriter_builder_free(builder);
                for s in sels {
                    lol_html_selector_free(s);
                }
            }
            // is_removed getters, user data of text chunks and doctypes, clearing end-tag handlers
            {
                use lol_html::html_content::{Doctype, EndTag, TextChunk};
                use lolhtml::doctype::*;
                use lolhtml::text_chunk::*;
                unsafe extern "C" fn et(_t: *mut EndTag, ud: *mut c_void) -> RewriterDirective {
                    let m = unsafe { &*(ud as *const Mutex<State>) };
                    m.lock().unwrap().problems.push("an end-tag handler ran although the handlers were cleared".into());
                    RewriterDirective::Continue
                }
                unsafe extern "C" fn et_ok(_t: *mut EndTag, ud: *mut c_void) -> RewriterDirective {
                    let m = unsafe { &*(ud as *const Mutex<State>) };
                    m.lock().unwrap().drops += 1000;
                    RewriterDirective::Continue
                }
                unsafe extern "C" fn el2(el: *mut Element, ud: *mut c_void) -> RewriterDirective {
                    unsafe {
                        lol_html_element_add_end_tag_handler(el, et, ud);
                        lol_html_element_add_end_tag_handler(el, et, ud);
                        lol_html_element_clear_end_tag_handlers(el);
                        lol_html_element_add_end_tag_handler(el, et_ok, ud);
                    }
                    RewriterDirective::Continue
                }
                unsafe extern "C" fn cm(c: *mut Comment, ud: *mut c_void) -> RewriterDirective {
                    let m = unsafe { &*(ud as *const Mutex<State>) };
                    unsafe {
                        if lol_html_comment_is_removed(c) {
                            m.lock().unwrap().problems.push("comment reported removed before remove()".into());
                        }
                        lol_html_comment_remove(c);
                        if !lol_html_comment_is_removed(c) {
                            m.lock().unwrap().problems.push("comment not reported removed after remove()".into());
                        }
                    }
                    RewriterDirective::Continue
                }
                unsafe extern "C" fn tx(t: *mut TextChunk, ud: *mut c_void) -> RewriterDirective {
                    let m = unsafe { &*(ud as *const Mutex<State>) };
                    unsafe {
                        if !lol_html_text_chunk_user_data_get(t).is_null() {
                            m.lock().unwrap().problems.push("text chunk user data not NULL initially".into());
                        }
                        lol_html_text_chunk_user_data_set(t, 9 as *mut c_void);
                        if lol_html_text_chunk_user_data_get(t) as usize != 9 {
                            m.lock().unwrap().problems.push("text chunk user data not returned after set".into());
                        }
                        lol_html_text_chunk_user_data_set(t, std::ptr::null_mut());
                        if !lol_html_text_chunk_user_data_get(t).is_null() {
                            m.lock().unwrap().problems.push("text chunk user data reset to NULL is still set".into());
                        }
                        if lol_html_text_chunk_is_removed(t) {
                            m.lock().unwrap().problems.push("text chunk reported removed before remove()".into());
                        }
                        lol_html_text_chunk_remove(t);
                        if !lol_html_text_chunk_is_removed(t) {
                            m.lock().unwrap().problems.push("text chunk not reported removed after remove()".into());
                        }
                    }
                    RewriterDirective::Continue
                }
                unsafe extern "C" fn dt(d: *mut Doctype, ud: *mut c_void) -> RewriterDirective {
                    let m = unsafe { &*(ud as *const Mutex<State>) };
                    unsafe {
                        if !lol_html_doctype_user_data_get(d).is_null() {
                            m.lock().unwrap().problems.push("doctype user data not NULL initially".into());
                        }
                        lol_html_doctype_user_data_set(d, 5 as *mut c_void);
                        if lol_html_doctype_user_data_get(d) as usize != 5 {
                            m.lock().unwrap().problems.push("doctype user data not returned after set".into());
                        }
                        if lol_html_doctype_is_removed(d) {
                            m.lock().unwrap().problems.push("doctype reported removed before remove()".into());
                        }
                        lol_html_doctype_remove(d);
                        if !lol_html_doctype_is_removed(d) {
                            m.lock().unwrap().problems.push("doctype not reported removed after remove()".into());
                        }
                    }
                    RewriterDirective::Continue
                }
                let drops_before = st.lock().unwrap().drops;
                let sel = lol_html_selector_parse(b"a".as_ptr() as *const c_char, 1);
                let builder = lol_html_rewriter_builder_new();
                lol_html_rewriter_builder_add_element_content_handlers(builder, sel, Some(el2), ud, None, null, None, null);
                lol_html_rewriter_builder_add_document_content_handlers(builder, Some(dt), ud, Some(cm), ud, Some(tx), ud, None, null);
                let r = lol_html_rewriter_build(builder, b"utf-8".as_ptr() as *const c_char, 5, lol_html::MemorySettings::new(), sink, ud, true);
                let before = st.lock().unwrap().out.len();
                let d2 = b"<!DOCTYPE html><a b=c>x<!--c--></a>";
                let rc = lol_html_rewriter_write(r, d2.as_ptr() as *const c_char, d2.len());
                let rc2 = lol_html_rewriter_end(r);
                {
                    let mut g = st.lock().unwrap();
                    if rc != 0 || rc2 != 0 {
                        g.problems.push("is_removed / user data scenario: write/end failed".into());
                    }
                    if g.drops != drops_before + 1000 {
                        g.problems.push("the end-tag handler added after clear_end_tag_handlers did not run exactly once".into());
                    }
                    if &g.out[before..] != b"<a b=c></a>" {
                        let got = lossy(&g.out[before..]);
                        g.problems.push(format!("doctype, text and comment removed through the C API: output {got:?}, expected \"<a b=c></a>\""));
                    }
                    g.drops = drops_before;
                    g.out.truncate(before);
                }
                lol_html_rewriter_free(r);
                lol_html_rewriter_builder_free(builder);
                lol_html_selector_free(sel);
            }
            // a handler that ignores a failing setter and then stops the rewriter: write() fails and
            // the last error is the rewriter's, not the stale setter error
            {
                unsafe extern "C" fn stopper(el: *mut Element, _ud: *mut c_void) -> RewriterDirective {
                    unsafe {
                        let _ = lol_html_element_set_attribute(el, b"a b".as_ptr() as *const c_char, 3, b"v".as_ptr() as *const c_char, 1);
                    }
                    RewriterDirective::Stop
                }
                let sel = lol_html_selector_parse(b"a".as_ptr() as *const c_char, 1);
                let builder = lol_html_rewriter_builder_new();
                lol_html_rewriter_builder_add_element_content_handlers(builder, sel, Some(stopper), null, None, null, None, null);
                let r = lol_html_rewriter_build(builder, b"utf-8".as_ptr() as *const c_char, 5, lol_html::MemorySettings::new(), sink, ud, true);
                let before = st.lock().unwrap().out.len();
                let rc = lol_html_rewriter_write(r, doc.as_ptr() as *const c_char, doc.len());
                let e = take_last_error();
                if rc != -1 {
                    st.lock().unwrap().problems.push("write() succeeded although a handler returned Stop".into());
                }
                if e.as_deref() != Some("The rewriter has been stopped.") {
                    st.lock().unwrap().problems.push(format!("after Stop the last error is {e:?}, expected \"The rewriter has been stopped.\""));
                }
                st.lock().unwrap().out.truncate(before);
                lol_html_rewriter_free(r);
                lol_html_rewriter_builder_free(builder);
                lol_html_selector_free(sel);
            }
        }
        let mut s = st.lock().unwrap();
        let want = "S&lt;\u{e9}<a b=c>x<!--c--></a>S&lt;\u{e9}<a b=c>x<!--c--></a>";
        if s.out != want.as_bytes() {
            let got = lossy(&s.out);
            s.problems.push(format!("rejected arguments must leave the tokens unchanged and the streaming handler must write S&lt;é: output {got:?}"));
        }
        if s.drops != 2 {
            let d = s.drops;
            s.problems.push(format!("streaming handler drop callback ran {d} times (expected once per accepted handler = 2, and never for refused handlers)"));
        }
        s.problems.clone()
    }
}

pub fn replay(case: &Value) -> Option<String> {
    match case["kind"].as_str()? {
        "diff" => {
            let cfg: Cfg = serde_json::from_value(case["cfg"].clone()).ok()?;
            let input = unhex(case["input_hex"].as_str()?);
            let sched: Sched = serde_json::from_value(case["sched"].clone()).ok()?;
            let order: FreeOrder = serde_json::from_value(case["order"].clone()).ok()?;
            compare(&cfg, &sched.chunks(&input), order).0
        }
        "inject" => {
            let p = inj::run();
            if p.is_empty() { None } else { Some(p.join(" ; ")) }
        }
        "valgrind" => valgrind_run(true),
        _ => None,
    }
}

fn diff_sweep(ctx: Option<&Ctx>, space: Space, cfgs: &[Cfg], lv: Levels, with_faults: bool, name: &str) -> Option<String> {
    let first_problem = std::sync::Mutex::new(None::<String>);
    let body = |i: usize, raw: &[u8]| {
        let mut scheds = vec![];
        for cfg in cfgs {
            let p = Prepared::new(cfg.clone()).unwrap();
            let input = adapt_to_encoding(raw, p.encoding);
            schedules(input.len(), lv, &mut scheds);
            for (si, s) in std::iter::once(&Sched::whole()).chain(scheds.iter()).enumerate() {
                let order = [FreeOrder::BuilderEarly, FreeOrder::RewriterFirst, FreeOrder::AfterEnd][(i + si) % 3];
                let chunks = s.chunks(&input);
                let mut variants = vec![cfg.clone()];
                if with_faults && si == 0 {
                    let clean = run(&p, &chunks, true);
                    for k in 1..=clean.handler_calls.min(10) {
                        variants.push(Cfg { fail_at: Some(k), ..cfg.clone() });
                    }
                    variants.push(Cfg { mem: Some((6, 0)), ..cfg.clone() });
                    variants.push(Cfg { mem: Some((40, 8)), graceful_mem: true, ..cfg.clone() });
                }
                for v in &variants {
                    let (m, calls, ran) = compare(v, &chunks, order);
                    if let Some(c) = ctx {
                        c.exec(calls);
                        c.validated(1);
                        c.states.insert(digest(&(&input, &s.cuts, order, v.fail_at, v.mem)));
                        c.outcomes.insert(digest(&(&input, calls, ran, v.fail_at)));
                        if ran {
                            c.nontrivial.insert(digest(&(&input, &v.handlers, v.fail_at)));
                        }
                    }
                    if let Some(msg) = m {
                        let case = json!({"kind": "diff", "cfg": v, "input_hex": hex(&input), "input_lossy": lossy(&input), "sched": s, "order": order});
                        match ctx {
                            Some(c) => {
                                let c2 = case.clone();
                                c.violation(msg, case, &|| replay(&c2));
                            }
                            None => {
                                first_problem.lock().unwrap().get_or_insert(msg);
                            }
                        }
                    }
                }
            }
        }
        if let Some(c) = ctx {
            if i % 2_003 == 3 {
                c.sample(json!({"kind": "differential", "input": lossy(raw), "configs": cfgs.len()}));
            }
        }
    };
    match ctx {
        Some(c) => sweep_space(c, name, space, &body),
        None => {
            // single-threaded (valgrind child)
            let mut idx = vec![];
            let mut raw = vec![];
            for i in 0..space.size() {
                space.render(i, &mut idx, &mut raw);
                body(i, &raw);
            }
        }
    }
    first_problem.into_inner().unwrap()
}

/// Child mode: the lifecycle / injection exploration on one thread, for valgrind.
pub fn lifecycle_child() -> i32 {
    let cfgs = configs();
    let k = F.len();
    let l1 = Levels { l1: true, l2_max_len: 0, bytewise: false, empties: false };
    let mut problems = inj::run();
    if let Some(p) = diff_sweep(None, Space::Frags { k, max: 1 }, &cfgs, l1, true, "") {
        problems.push(p);
    }
    for p in &problems {
        println!("PROBLEM {p}");
    }
    if problems.is_empty() { 0 } else { 1 }
}

fn valgrind_run(quiet: bool) -> Option<String> {
    let exe = std::env::current_exe().ok()?;
    let out = std::process::Command::new("valgrind")
        .args(["--error-exitcode=97", "--leak-check=full", "--errors-for-leak-kinds=definite,indirect", "--show-leak-kinds=definite,indirect", "-q"])
        .arg(exe)
        .args(["C17", "--lifecycle-child"])
        .output();
    match out {
        Err(e) => Some(format!("MACHINERY: cannot run valgrind: {e}")),
        Ok(o) => {
            let code = o.status.code();
            if code == Some(0) {
                return None;
            }
            let err = String::from_utf8_lossy(&o.stderr);
            let so = String::from_utf8_lossy(&o.stdout);
            let _ = quiet;
            Some(format!(
                "valgrind run of the C-API lifecycle exploration exited with {:?}: {} {}",
                code,
                so.lines().filter(|l| l.starts_with("PROBLEM")).take(3).collect::<Vec<_>>().join(" | "),
                err.lines().filter(|l| l.contains("==")).take(12).collect::<Vec<_>>().join(" | ")
            ))
        }
    }
}

pub fn run_check(ctx: &Ctx) -> i32 {
    let quick = ctx.quick();
    let cfgs = configs();
    let k = F.len();
    let l1 = Levels { l1: true, l2_max_len: 0, bytewise: true, empties: false };
    diff_sweep(Some(ctx), Space::Frags { k, max: if quick { 2 } else { 3 } }, &cfgs, l1, true, &format!("differential Rust vs C: F<={} x {} configs x L0,L1,LB x 3 free orders x Stop at every handler index + 2 memory limits", if quick { 2 } else { 3 }, cfgs.len()));
    diff_sweep(Some(ctx), Space::CtxFrags { k, max: 1 }, &cfgs, l1, false, "differential Rust vs C: 18 contexts x F<=1");
    // argument-error injections
    let problems = inj::run();
    if !problems.is_empty() {
        ctx.violation(problems.join(" ; "), json!({"kind": "inject"}), &|| {
            let p = inj::run();
            if p.is_empty() { None } else { Some(p.join(" ; ")) }
        });
    }
    ctx.exec(40);
    ctx.validated(1);
    ctx.level_done("argument-error injections: invalid UTF-8 into every string-taking entry point, bad selectors, bad encodings, NULL / half-initialised / valid streaming handlers");
    // valgrind
    if std::process::Command::new("valgrind").arg("--version").output().is_err() {
        *ctx.machinery_error.lock().unwrap() = Some("valgrind is not installed".into());
    } else {
        ctx.exec(1);
        if let Some(msg) = valgrind_run(false) {
            if msg.starts_with("MACHINERY") {
                *ctx.machinery_error.lock().unwrap() = Some(msg);
            } else {
                ctx.violation(msg, json!({"kind": "valgrind"}), &|| valgrind_run(true));
            }
        }
        ctx.level_done("valgrind memcheck + full leak check over the injections and the F<=1 differential exploration with all free orders and faults (single-threaded child)");
    }
    ctx.finish(
        "model_checking",
        RULE,
        &[
            "the extern \"C\" functions are called from Rust through the lolhtml rlib (same symbols and ABI as a C caller)",
            "valgrind memcheck sees heap errors and leaks, not aliasing-model UB",
            "the C API cannot express graceful handler-error bail-out, bail-out handlers, start-tag level edits or meta-charset switching; those configurations are not mirrored",
        ],
        true,
    )
}
