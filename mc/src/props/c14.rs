//! C14 Source locations are exact, absolute and independent of chunking.

use crate::alpha::*;
use crate::common::*;
use crate::docgen::*;
use crate::drive::*;
use crate::explore::*;
use crate::rattr::*;
use serde_json::{Value, json};

const RULE: &str = "(a) every document over an 18-event alphabet (start tags with varied attribute syntax, end tags, ASCII and multi-byte text, comments, doctype; len<=n), whose byte ranges the generator knows, x {observers of everything, handlers that rewrite earlier content} x encodings {UTF-8, Shift_JIS, windows-1252} (+ a configuration in which an earlier handler sets an existing attribute, which must then report no location) x schedules (L0, every 1-cut, 2-cuts, byte-wise): every reported range == the generator's range (tags '<'..'>', attribute name/value per an independent attribute parser, comments, doctype; text chunk ranges contiguous and covering exactly their node); (b) every F<=k tag-soup input: ranges in bounds, per handler never overlapping or going backwards, tags start with '<', and identical under every schedule; non-trivial = distinct (document, config) with >=1 located event";

fn doc_alphabet() -> Vec<DEv> {
    let o = |name: &str, raw: &str| DEv::Open { name: name.into(), attrs: AttrSet { raw: raw.into(), parsed: vec![] }, slash: false };
    vec![
        DEv::open("a"),
        o("a", " k=v"),
        o("a", " k=\"v w\" id='i'"),
        o("A", "  K = V "),
        o("a", " k"),
        o("a", " k= "),
        o("a", " k=\"\" j"),
        o("a", " w=5\" c=c"),
        o("a", " t=it's' b'"),
        DEv::Open { name: "br".into(), attrs: AttrSet::none(), slash: true },
        o("x-long-custom-element", " data-x=1"),
        // non-ASCII attribute values: raw length != decoded length in the legacy encodings
        o("a", " k=\u{e9}x t=\"\u{30a2}y\" z"),
        DEv::close("a"),
        DEv::close("A "),
        DEv::Text("t".into()),
        DEv::Text("\u{e9}\u{20ac}".into()),
        DEv::Comment("c".into()),
        DEv::Doctype,
    ]
}

fn observer_cfg(enc: &str) -> Cfg {
    let mut hs = doc_all();
    hs.push(HSpec::obs_end_tag("*"));
    hs.push(HSpec::obs(HKind::Text, "a"));
    hs.push(HSpec::obs(HKind::Comments, "a"));
    Cfg::with(hs).strict(false).enc(enc)
}

fn rewriting_cfg(enc: &str) -> Cfg {
    let hs = vec![
        HSpec { end_tag_ops: Some(vec![Op::After("\x01x\x02".into(), true)]), ..HSpec::with_ops(HKind::Element, "*", vec![Op::Before("\x01long-marker-long-marker\x02".into(), true), Op::SetAttr("zz".into(), "1".into())]) },
        HSpec::with_ops(HKind::DocComments, "", vec![Op::Replace("".into(), true)]),
        HSpec { last_only: true, ..HSpec::with_ops(HKind::DocText, "", vec![Op::Before("\x01tt\x02".into(), true)]) },
        HSpec::obs(HKind::DocDoctype, ""),
        HSpec::obs(HKind::Element, "*"),
    ];
    Cfg::with(hs).strict(false).enc(enc)
}

/// The configuration whose first handler calls set_attribute("k", ..) on every element: the
/// first attribute named k (if any) is then programmatic and must report no location.
fn sets_k(p: &Prepared) -> bool {
    p.cfg.handlers.first().is_some_and(|h| h.ops.iter().any(|o| matches!(o, Op::SetAttr(n, _) if n == "k")))
}

fn check_known(p: &Prepared, evs: &[DEv], r: &Rendered, sched: &Sched) -> (Option<String>, usize, usize) {
    let sets_k = sets_k(p);
    let chunks = sched.chunks(&r.bytes);
    let rr = run(p, &chunks, true);
    let calls = rr.results.len();
    if !rr.all_ok() {
        return (Some(format!("run failed: {:?}", rr.first_failure().map(|(_, r)| r.short()))), calls, 0);
    }
    let span_starting = |at: usize| r.spans.iter().position(|s| s.0 == at);
    let mut located = 0;
    // open text node per handler: (event index, expected next start)
    let mut text_pos: std::collections::BTreeMap<u16, (usize, usize)> = Default::default();
    for e in &rr.events {
        match e {
            Ev::El { loc, attrs, reg, .. } => {
                located += 1;
                let Some(ei) = span_starting(loc.0) else { return (Some(format!("element range {:?} does not start at a token start", loc)), calls, located) };
                if r.spans[ei] != *loc || !matches!(evs[ei], DEv::Open { .. }) {
                    return (Some(format!("element range {:?} != start tag bytes {:?}", loc, r.spans[ei])), calls, located);
                }
                let tag = &r.bytes[loc.0..loc.1];
                let Some(rt) = parse_start_tag(tag) else { return (Some("reference attribute parser failed on a generated tag".into()), calls, located) };
                // attributes added by a handler have no location; compare the parsed ones
                let parsed: Vec<&AttrObs> = attrs.iter().filter(|a| a.nloc.is_some() || a.vloc.is_some()).collect();
                let programmatic = attrs.len() - parsed.len();
                // an attribute whose value a handler has set is programmatic: no location
                let mut want_attrs: Vec<&RAttr> = rt.attrs.iter().collect();
                if sets_k {
                    if let Some(i) = want_attrs.iter().position(|ra| tag[ra.name.0..ra.name.1].eq_ignore_ascii_case(b"k")) {
                        want_attrs.remove(i);
                    }
                    if let Some(a) = attrs.iter().find(|a| a.name == "k") {
                        if a.nloc.is_some() || a.vloc.is_some() {
                            return (Some(format!("handler #{reg}: attribute k was set by an earlier handler but still reports a source location (name {:?}, value {:?}) in {:?}", a.nloc, a.vloc, lossy(tag))), calls, located);
                        }
                    }
                }
                // at most one programmatic attribute per distinct name set by an earlier handler
                let max_programmatic = {
                    let mut names: Vec<&str> = p.cfg.handlers.iter().flat_map(|h| h.ops.iter()).filter_map(|o| if let Op::SetAttr(n, _) = o { Some(n.as_str()) } else { None }).collect();
                    names.sort();
                    names.dedup();
                    names.len().max(1)
                };
                if parsed.len() != want_attrs.len() || programmatic > max_programmatic {
                    return (Some(format!("handler #{reg}: {} located attributes, reference parser finds {} in {:?}", parsed.len(), want_attrs.len(), lossy(tag))), calls, located);
                }
                for (a, ra) in parsed.iter().zip(want_attrs.iter().copied()) {
                    let want_n = (loc.0 + ra.name.0, loc.0 + ra.name.1);
                    if a.nloc != Some(want_n) {
                        return (Some(format!("attribute name range {:?} != {:?} in {:?}", a.nloc, want_n, lossy(tag))), calls, located);
                    }
                    let want_v = (loc.0 + ra.value.0, loc.0 + ra.value.1);
                    if ra.value.1 > ra.value.0 {
                        if a.vloc != Some(want_v) {
                            return (Some(format!("attribute value range {:?} != {:?} in {:?}", a.vloc, want_v, lossy(tag))), calls, located);
                        }
                    } else {
                        // empty value: the range must be empty and lie inside the tag
                        match a.vloc {
                            Some((s, e)) if s == e && s > loc.0 && s < loc.1 => {}
                            other => return (Some(format!("empty attribute value has range {:?} in tag {:?} at {:?}", other, lossy(tag), loc)), calls, located),
                        }
                    }
                }
            }
            Ev::EndTag { loc, .. } | Ev::Comment { loc, .. } | Ev::Doctype { loc, .. } => {
                located += 1;
                let ok = span_starting(loc.0).is_some_and(|ei| {
                    r.spans[ei] == *loc
                        && matches!((&evs[ei], e), (DEv::Close(_), Ev::EndTag { .. }) | (DEv::Comment(_), Ev::Comment { .. }) | (DEv::Doctype, Ev::Doctype { .. }))
                });
                if !ok {
                    return (Some(format!("{e:?}: range is not the token's bytes")), calls, located);
                }
            }
            Ev::Text { reg, loc, last, .. } => {
                located += 1;
                match text_pos.get(reg).copied() {
                    None => {
                        let Some(ei) = span_starting(loc.0) else {
                            return (Some(format!("first text chunk of a node starts at {} which is not the start of a text node", loc.0)), calls, located);
                        };
                        if !matches!(evs[ei], DEv::Text(_)) {
                            return (Some(format!("text chunk range {:?} starts at a non-text token", loc)), calls, located);
                        }
                        if loc.1 > r.spans[ei].1 {
                            return (Some(format!("text chunk range {:?} exceeds its text node {:?}", loc, r.spans[ei])), calls, located);
                        }
                        text_pos.insert(*reg, (ei, loc.1));
                    }
                    Some((ei, next)) => {
                        if loc.0 != next {
                            return (Some(format!("text chunk ranges not contiguous: previous ended at {next}, next chunk is {:?} (node {:?})", loc, r.spans[ei])), calls, located);
                        }
                        if loc.1 > r.spans[ei].1 {
                            return (Some(format!("text chunk range {:?} exceeds its text node {:?}", loc, r.spans[ei])), calls, located);
                        }
                        text_pos.insert(*reg, (ei, loc.1));
                    }
                }
                if *last {
                    let (ei, end) = text_pos.remove(reg).unwrap();
                    if end != r.spans[ei].1 {
                        return (Some(format!("text chunks of node {:?} cover only up to {end}", r.spans[ei])), calls, located);
                    }
                }
            }
            _ => {}
        }
    }
    (None, calls, located)
}

/// (b) structural checks on arbitrary tag soup + schedule independence of every location.
fn loc_log(events: &[Ev]) -> Vec<(u16, u8, Loc, Vec<(Option<Loc>, Option<Loc>)>)> {
    // merged per text node so that fragmentation does not matter
    let norm = normalise_events_lenient(events);
    norm.iter()
        .filter_map(|e| match e {
            Ev::El { reg, loc, attrs, .. } => Some((*reg, 0, *loc, attrs.iter().map(|a| (a.nloc, a.vloc)).collect())),
            Ev::EndTag { reg, loc, .. } => Some((*reg, 1, *loc, vec![])),
            Ev::Comment { reg, loc, .. } => Some((*reg, 2, *loc, vec![])),
            Ev::Doctype { reg, loc, .. } => Some((*reg, 3, *loc, vec![])),
            Ev::Text { reg, loc, .. } => Some((*reg, 4, *loc, vec![])),
            _ => None,
        })
        .collect()
}

fn check_soup(p: &Prepared, input: &[u8], sched: &Sched, reference: Option<&Vec<(u16, u8, Loc, Vec<(Option<Loc>, Option<Loc>)>)>>) -> (Option<String>, Vec<(u16, u8, Loc, Vec<(Option<Loc>, Option<Loc>)>)>, usize) {
    let chunks = sched.chunks(input);
    let rr = run(p, &chunks, true);
    let log = loc_log(&rr.events);
    let calls = rr.results.len();
    if rr.panicked().is_some() {
        return (Some("panic".into()), log, calls);
    }
    let mut last_end: std::collections::BTreeMap<u16, usize> = Default::default();
    let mut last_loc: std::collections::BTreeMap<u16, Loc> = Default::default();
    for (reg, kind, loc, attrs) in &log {
        if loc.0 > loc.1 || loc.1 > input.len() {
            return (Some(format!("range {:?} out of bounds (input {} bytes)", loc, input.len())), log, calls);
        }
        let prev = last_end.get(reg).copied().unwrap_or(0);
        // one end tag may close several elements: each of their end-tag handlers sees it
        let same_end_tag = *kind == 1 && last_loc.get(reg) == Some(loc);
        last_loc.insert(*reg, *loc);
        if loc.0 < prev && !same_end_tag {
            return (Some(format!("handler #{reg}: range {:?} overlaps or precedes the previous token ending at {prev}", loc)), log, calls);
        }
        last_end.insert(*reg, loc.1);
        if *kind <= 3 && (loc.1 == loc.0 || input[loc.0] != b'<') {
            return (Some(format!("token range {:?} does not start with '<'", loc)), log, calls);
        }
        for (n, v) in attrs {
            for x in [n, v].into_iter().flatten() {
                if x.0 < loc.0 || x.1 > loc.1 || x.0 > x.1 {
                    let m = format!("attribute range {:?} outside its tag {:?}", x, loc);
                    return (Some(m), log.clone(), calls);
                }
            }
        }
    }
    if let Some(r) = reference {
        if rr.all_ok() && *r != log {
            let i = r.iter().zip(log.iter()).position(|(a, b)| a != b).unwrap_or(r.len().min(log.len()));
            return (Some(format!("locations depend on chunking: single write {:?} vs {:?} at located event #{i}", r.get(i), log.get(i))), log, calls);
        }
    }
    (None, log, calls)
}

pub fn replay(case: &Value) -> Option<String> {
    let cfg: Cfg = serde_json::from_value(case["cfg"].clone()).ok()?;
    let sched: Sched = serde_json::from_value(case["sched"].clone()).ok()?;
    let p = Prepared::new(cfg).ok()?;
    if case["kind"].as_str()? == "D" {
        let evs: Vec<DEv> = serde_json::from_value(case["doc"].clone()).ok()?;
        let r = if p.encoding == encoding_rs::UTF_8 { render(&evs) } else { render_enc(&evs, p.encoding) };
        check_known(&p, &evs, &r, &sched).0
    } else {
        let input = unhex(case["input_hex"].as_str()?);
        let (_, reference, _) = check_soup(&p, &input, &Sched::whole(), None);
        check_soup(&p, &input, &sched, Some(&reference)).0
    }
}

pub fn run_check(ctx: &Ctx) -> i32 {
    let alpha = doc_alphabet();
    let quick = ctx.quick();
    // an earlier handler modifies tokens TWICE (attribute + attribute, end tag name + name, comment
    // text + text); later handlers read the locations, which still are the original ranges
    let set_k_cfg = Cfg::with(vec![
        HSpec { log: false, end_tag_ops: Some(vec![Op::SetText("zz".into()), Op::SetText("yy".into())]), ..HSpec::with_ops(HKind::Element, "*", vec![Op::SetAttr("k".into(), "new value".into()), Op::SetAttr("zz".into(), "1".into()), Op::SetAttr("zz".into(), "2".into())]) },
        HSpec { log: false, ..HSpec::with_ops(HKind::DocComments, "", vec![Op::SetText("one".into()), Op::SetText("two".into())]) },
        HSpec::obs(HKind::Element, "*"),
        HSpec::obs_end_tag("*"),
        HSpec::obs(HKind::DocComments, ""),
    ])
    .strict(false);
    let cfgs: Vec<Prepared> = vec![
        Prepared::new(observer_cfg("UTF-8")).unwrap(),
        Prepared::new(rewriting_cfg("UTF-8")).unwrap(),
        Prepared::new(observer_cfg("Shift_JIS")).unwrap(),
        Prepared::new(observer_cfg("windows-1252")).unwrap(),
        Prepared::new(set_k_cfg).unwrap(),
    ];
    let max_len = if quick { 4 } else { 5 };
    let lv = Levels { l1: true, l2_max_len: if quick { 20 } else { 40 }, bytewise: true, empties: false };
    let n = count_upto(alpha.len(), max_len);
    par_for(n, 4, |di| {
        if ctx.over_time() {
            return;
        }
        let mut idx = vec![];
        seq_at(di, alpha.len(), &mut idx);
        let evs: Vec<DEv> = idx.iter().map(|&k| alpha[k].clone()).collect();
        if evs.windows(2).any(|w| matches!((&w[0], &w[1]), (DEv::Text(_), DEv::Text(_)))) {
            return;
        }
        let mut scheds = vec![];
        for p in &cfgs {
            let r = if p.encoding == encoding_rs::UTF_8 { render(&evs) } else { render_enc(&evs, p.encoding) };
            schedules(r.bytes.len(), lv, &mut scheds);
            for s in std::iter::once(&Sched::whole()).chain(scheds.iter()) {
                let (m, calls, located) = check_known(p, &evs, &r, s);
                ctx.exec(calls);
                ctx.validated(1);
                ctx.states.insert(digest(&(&r.bytes, &s.cuts)));
                if located > 0 {
                    ctx.nontrivial.insert(digest(&(&r.bytes, &p.cfg.handlers.len(), &p.cfg.encoding)));
                }
                if let Some(msg) = m {
                    let case = json!({"kind": "D", "cfg": p.cfg, "doc": evs, "doc_lossy": lossy(&r.bytes), "sched": s});
                    let c2 = case.clone();
                    ctx.violation(msg, case, &|| replay(&c2));
                }
            }
        }
        if di % 503 == 3 {
            ctx.sample(json!({"kind": "D", "document": lossy(&render(&evs).bytes)}));
        }
    });
    if !ctx.capped.load(std::sync::atomic::Ordering::Relaxed) {
        ctx.level_done(&format!("(a) D<={max_len} over 18 events x 5 configs x L0,L1,L2,LB: ranges == generator ranges"));
    }
    // (a') long text nodes: more than the decoder's 1 KiB buffer of ASCII followed by non-ASCII
    // or malformed bytes, in one write and cut around the boundary
    {
        let cases: Vec<(&str, Vec<u8>)> = vec![("windows-1252", vec![0xE9, b'b', b'c']), ("UTF-8", vec![0xFF, b'b']), ("UTF-8", "\u{e9}\u{20ac}z".as_bytes().to_vec()), ("Shift_JIS", vec![0x83, 0x41, 0x83])];
        let lens: Vec<usize> = vec![1000, 1021, 1022, 1023, 1024, 1025, 1500, 2047, 2048, 2050];
        par_for(cases.len() * lens.len(), 1, |j| {
            let (enc, tail) = &cases[j / lens.len()];
            let n = lens[j % lens.len()];
            let p = Prepared::new(observer_cfg(enc)).unwrap();
            let mut text = vec![b'a'; n];
            text.extend_from_slice(tail);
            // rendered by hand: the text bytes are not valid UTF-8 in every case
            let mut bytes = b"<a>".to_vec();
            let ts = bytes.len();
            bytes.extend_from_slice(&text);
            let te = bytes.len();
            bytes.extend_from_slice(b"</a>");
            let evs = vec![DEv::open("a"), DEv::Text(String::new()), DEv::close("a")];
            let r = Rendered { spans: vec![(0, ts), (ts, te), (te, bytes.len())], bytes };
            let mut scheds = vec![Sched::whole()];
            for c in [ts + 1, ts + 1023, ts + 1024, ts + 1025, ts + n, ts + n + 1, te - 1] {
                if c > 0 && c < r.bytes.len() {
                    scheds.push(Sched { cuts: vec![c], empty_at: None });
                }
            }
            scheds.push(Sched { cuts: (1..r.bytes.len()).step_by(511).collect(), empty_at: None });
            for s in &scheds {
                let (m, calls, _) = check_known(&p, &evs, &r, s);
                ctx.exec(calls);
                ctx.validated(1);
                if let Some(msg) = m {
                    let case = json!({"kind": "long", "enc": enc, "n": n, "tail_hex": hex(tail), "sched": s});
                    let (p2, e2, r2, s2) = (Prepared::new(observer_cfg(enc)).unwrap(), evs.clone(), Rendered { bytes: r.bytes.clone(), spans: r.spans.clone() }, s.clone());
                    ctx.violation(msg, case, &|| check_known(&p2, &e2, &r2, &s2).0);
                }
            }
        });
        ctx.level_done("(a') text nodes of 1000..2050 ASCII bytes + non-ASCII / malformed tail x 4 encodings x single write and cuts around the 1 KiB decoder buffer");
    }
    // (b)
    let soup_cfgs: Vec<Prepared> = vec![Prepared::new(observer_cfg("UTF-8")).unwrap(), Prepared::new(rewriting_cfg("UTF-8")).unwrap()];
    let k = F.len();
    let soup = |name: &str, space: Space, lv: Levels| {
        sweep_space(ctx, name, space, &|i, raw| {
            let mut scheds = vec![];
            for p in &soup_cfgs {
                let (m0, reference, calls) = check_soup(p, raw, &Sched::whole(), None);
                ctx.exec(calls);
                ctx.outcomes.insert(digest(&reference));
                let report = |msg: String, s: &Sched| {
                    let case = json!({"kind": "F", "cfg": p.cfg, "input_hex": hex(raw), "input_lossy": lossy(raw), "sched": s});
                    let c2 = case.clone();
                    ctx.violation(msg, case, &|| replay(&c2));
                };
                if let Some(m) = m0 {
                    report(m, &Sched::whole());
                    continue;
                }
                schedules(raw.len(), lv, &mut scheds);
                for s in &scheds {
                    let (m, _, calls) = check_soup(p, raw, s, Some(&reference));
                    ctx.exec(calls);
                    ctx.validated(1);
                    if let Some(m) = m {
                        report(m, s);
                    }
                }
                if !reference.is_empty() {
                    ctx.nontrivial.insert(digest(&(raw, p.cfg.handlers.len())));
                }
            }
            if i % 40_009 == 1 {
                ctx.sample(json!({"kind": "F", "input": lossy(raw)}));
            }
        });
    };
    // (b') scaled documents: offsets far from the start, tokens buffered across many writes
    {
        let docs = scaled_docs(quick);
        par_for(docs.len(), 1, |i| {
            if ctx.over_time() {
                return;
            }
            let (label, raw) = &docs[i];
            for p in &soup_cfgs {
                let (m0, reference, calls) = check_soup(p, raw, &Sched::whole(), None);
                ctx.exec(calls);
                let report = |msg: String, s: &Sched| {
                    let case = json!({"kind": "F", "document": label, "cfg": p.cfg, "input_hex": hex(raw), "input_lossy": lossy(&raw[..raw.len().min(100)]), "sched": s});
                    let c2 = case.clone();
                    ctx.violation(msg, case, &|| replay(&c2));
                };
                if let Some(m) = m0 {
                    report(m, &Sched::whole());
                    continue;
                }
                // every located range must show the right kind of bytes
                for (_, kind, loc, attrs) in &reference {
                    let bytes = &raw[loc.0..loc.1];
                    let ok = match kind {
                        0 => bytes.starts_with(b"<") && bytes.ends_with(b">") && !bytes.starts_with(b"</"),
                        1 => bytes.starts_with(b"</") && bytes.ends_with(b">"),
                        2 => bytes.starts_with(b"<!--") || bytes.starts_with(b"<!") || bytes.starts_with(b"<?") || bytes.starts_with(b"</"),
                        3 => bytes.len() >= 9 && bytes[..9].eq_ignore_ascii_case(b"<!doctype"),
                        _ => true,
                    };
                    if !ok {
                        report(format!("located range {:?} of kind {kind} shows {:?}", loc, lossy(&bytes[..bytes.len().min(40)])), &Sched::whole());
                        break;
                    }
                    let _ = attrs;
                }
                for s in &scaled_scheds(raw.len(), quick) {
                    let (m, _, calls) = check_soup(p, raw, s, Some(&reference));
                    ctx.exec(calls);
                    ctx.validated(1);
                    if let Some(m) = m {
                        report(m, s);
                    }
                }
                if !reference.is_empty() {
                    ctx.nontrivial.insert(digest(&(raw, p.cfg.handlers.len())));
                }
            }
            if i % 97 == 3 {
                ctx.sample(json!({"kind": "scaled", "document": label}));
            }
        });
        if !ctx.capped.load(std::sync::atomic::Ordering::Relaxed) {
            ctx.level_done(&format!("(b') {} scaled documents (sizes around 12, 32, 64, 256, 1024, 2048) x 2 configs x fixed chunk sizes + cuts around the thresholds: locations independent of chunking, ranges show the right kind of token", docs.len()));
        }
    }
    let l1 = Levels { l1: true, l2_max_len: 0, bytewise: true, empties: false };
    if quick {
        soup("(b) F<=2 x 2 configs x L1,L2,LB", Space::Frags { k, max: 2 }, Levels { l1: true, l2_max_len: 16, bytewise: true, empties: true });
        soup("(b) F<=3 x 2 configs x L1,LB", Space::Frags { k, max: 3 }, l1);
        soup("(b) 18 contexts x F<=1 x L1,LB", Space::CtxFrags { k, max: 1 }, l1);
    } else {
        soup("(b) F<=3 x 2 configs x L1,L2,LB", Space::Frags { k, max: 3 }, Levels { l1: true, l2_max_len: 40, bytewise: true, empties: true });
        soup("(b) Fcore<=4 x 2 configs x L1,LB", Space::Frags { k: F_CORE, max: 4 }, l1);
        soup("(b) 18 contexts x F<=2 x L1,LB", Space::CtxFrags { k, max: 2 }, l1);
    }
    ctx.finish(
        "model_checking",
        RULE,
        &["token ranges in (a) come from the document generator, attribute ranges from R-attr (WHATWG attribute states written from the specification)", "for an empty attribute value only emptiness, containment in the tag and schedule-independence are demanded"],
        true,
    )
}
