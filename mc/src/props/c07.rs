//! C07 Rewrite operations produce exactly the documented edit of the token stream.

use crate::docgen::*;
use crate::drive::*;
use crate::explore::*;
use crate::rattr::*;
use crate::rmatch::*;
use serde::{Deserialize, Serialize};
use serde_json::{Value, json};

const RULE: &str = "every document over a 9-event alphabet (nested matched elements, unclosed, mis-nested, void, comments, text; also wrapped in <svg> for foreign self-closing) of length<=n x every op script of <=2 calls from the element menu (before/after/prepend/append/replace/set_inner_content x {Html,Text} x payloads, remove, remove_and_keep_content, set_attribute, remove_attribute, set_tag_name, start-tag before/after/replace/remove, the streaming_* variant of every content-inserting call (content written to the streaming sink in pieces, one split inside a character), end-tag before/after/replace/remove/set_name via on_end_tag) on selector `a`, alone and together with a second handler on `*` (two handlers on one token, nested matched elements), plus comment / text-chunk / doctype / document-end menus x encodings {UTF-8, windows-1252} x {single write, a cut inside every tag}; oracle: sink bytes == R-edit(document, scripts) (exact bytes; a modified start tag is compared as name + attribute list with untouched attributes byte-identical); non-trivial = distinct (document, script) where at least one handler ran";

// ---------------------------------------------------------------------------------------------
// scripts
// ---------------------------------------------------------------------------------------------

#[derive(Clone, Debug, PartialEq, Eq, Hash, Serialize, Deserialize)]
pub enum Item {
    El(Op),
    /// executed on the end tag through `on_end_tag`
    End(Op),
}

fn payloads() -> Vec<(String, bool)> {
    vec![("X".into(), true), ("<i>".into(), true), ("Y<".into(), false), ("\u{e9}".into(), true), ("".into(), true)]
}

fn element_menu(full: bool) -> Vec<Item> {
    let mut v = vec![];
    let ps = payloads();
    let ps: Vec<(String, bool)> = if full { ps } else { ps.into_iter().take(3).collect() };
    for (s, h) in &ps {
        v.push(Item::El(Op::Before(s.clone(), *h)));
        v.push(Item::El(Op::After(s.clone(), *h)));
        v.push(Item::El(Op::Prepend(s.clone(), *h)));
        v.push(Item::El(Op::Append(s.clone(), *h)));
        v.push(Item::El(Op::Replace(s.clone(), *h)));
        v.push(Item::El(Op::SetInner(s.clone(), *h)));
    }
    v.push(Item::El(Op::Remove));
    v.push(Item::El(Op::RemoveKeepContent));
    v.push(Item::El(Op::SetAttr("k".into(), "w\"w".into())));
    v.push(Item::El(Op::SetAttr("n".into(), "1".into())));
    v.push(Item::El(Op::SetAttr("k".into(), "plain".into())));
    v.push(Item::El(Op::RemoveAttr("ID".into())));
    v.push(Item::El(Op::SetTagName("z".into())));
    // a rename that differs from the current name only in letter case (start and end tag together)
    v.push(Item::El(Op::SetTagName("A".into())));
    v.push(Item::El(Op::StBefore("S".into(), true)));
    v.push(Item::El(Op::StAfter("T".into(), true)));
    v.push(Item::El(Op::StReplace("U".into(), true)));
    v.push(Item::El(Op::StRemove));
    v.push(Item::End(Op::Before("E".into(), true)));
    v.push(Item::End(Op::After("F<".into(), false)));
    v.push(Item::End(Op::Replace("G".into(), true)));
    v.push(Item::End(Op::Remove));
    v.push(Item::End(Op::SetText("y".into())));
    v.push(Item::End(Op::SetText("A".into())));
    v
}

/// Combinations whose documented meaning is not defined (two removal-class calls, or start-tag
/// level content mixed with element-level content in the same slot) are not generated.
fn ambiguous(a: &Item, b: &Item) -> bool {
    let removal = |i: &Item| matches!(i, Item::El(Op::Remove | Op::RemoveKeepContent | Op::Replace(..) | Op::StReplace(..) | Op::StRemove));
    let st_after = |i: &Item| matches!(i, Item::El(Op::StAfter(..)));
    let inner_start = |i: &Item| matches!(i, Item::El(Op::Prepend(..) | Op::SetInner(..) | Op::After(..)));
    let replace_replace = matches!((a, b), (Item::El(Op::Replace(..)), Item::El(Op::Replace(..))));
    let end_edit = |i: &Item| matches!(i, Item::End(_));
    // explicit end-tag edits compose with element-level *insertions* in the natural order (inner
    // content, then "before the end tag"; "after the end tag", then "after the element"); together
    // with calls that remove the end tag or the content the meaning is not documented
    let end_side = |i: &Item| matches!(i, Item::El(Op::Remove | Op::RemoveKeepContent | Op::Replace(..) | Op::SetInner(..)));
    (removal(a) && removal(b) && !replace_replace)
        || (st_after(a) && inner_start(b) && false)
        || (st_after(b) && inner_start(a) && false)
        // order between element-level end-side content and explicit end-tag edits is not documented
        || (end_edit(a) && end_side(b))
        || (end_edit(b) && end_side(a))
        || (matches!(a, Item::End(Op::Replace(..) | Op::Remove)) && end_edit(b))
        || (matches!(b, Item::End(Op::Replace(..) | Op::Remove)) && end_edit(a) && !matches!(a, Item::End(Op::Before(..) | Op::After(..))))
}

// ---------------------------------------------------------------------------------------------
// R-edit
// ---------------------------------------------------------------------------------------------

#[derive(Clone, Debug, Default)]
struct ElState {
    matched: bool,
    before: Vec<(String, bool)>,
    after: Vec<(String, bool)>,
    start_list: Vec<(String, bool)>,
    end_list: Vec<(String, bool)>,
    start_removed: bool,
    replacement: Option<(String, bool)>,
    content_removed: bool,
    end_removed: bool,
    /// explicit end-tag edits
    end_before: Vec<(String, bool)>,
    end_after: Vec<(String, bool)>,
    end_replacement: Option<(String, bool)>,
    end_tag_removed: bool,
    end_name: Option<String>,
    new_name: Option<String>,
    /// start-tag level
    st_before: Vec<(String, bool)>,
    st_after: Vec<(String, bool)>,
    attr_edits: Vec<Op>,
    any_end_side: bool,
    /// the element carries an end-tag mutation record of its own (as-implemented model only)
    end_mut: bool,
}

fn apply(st: &mut ElState, item: &Item, void: bool) {
    match item {
        Item::El(op) => match op {
            Op::Before(s, h) => st.before.push((s.clone(), *h)),
            Op::After(s, h) => {
                st.after.insert(0, (s.clone(), *h));
                if !void {
                    st.any_end_side = true;
                    st.end_mut = true;
                }
            }
            Op::Prepend(s, h) if !void => st.start_list.insert(0, (s.clone(), *h)),
            Op::Append(s, h) if !void => {
                st.end_list.push((s.clone(), *h));
                st.any_end_side = true;
                st.end_mut = true;
            }
            Op::SetInner(s, h) if !void => {
                st.content_removed = true;
                st.start_list = vec![(s.clone(), *h)];
                st.end_list.clear();
            }
            Op::Replace(s, h) => {
                st.replacement = Some((s.clone(), *h));
                st.start_removed = true;
                if !void {
                    st.content_removed = true;
                    st.start_list.clear();
                    st.end_list.clear();
                    st.end_removed = true;
                    st.any_end_side = true;
                    st.end_mut = true;
                }
            }
            Op::Remove => {
                st.start_removed = true;
                if !void {
                    st.content_removed = true;
                    st.start_list.clear();
                    st.end_list.clear();
                    st.end_removed = true;
                    st.any_end_side = true;
                    st.end_mut = true;
                }
            }
            Op::RemoveKeepContent => {
                st.start_removed = true;
                if !void {
                    st.end_removed = true;
                    st.any_end_side = true;
                    st.end_mut = true;
                }
            }
            Op::SetAttr(..) | Op::RemoveAttr(..) => st.attr_edits.push(op.clone()),
            Op::SetTagName(n) => {
                st.new_name = Some(n.clone());
                if !void {
                    st.any_end_side = true;
                }
            }
            // start-tag level content shares its slots with the element-level calls: "before the
            // start tag" is "before the element", "after the start tag" is the beginning of the
            // inner content (or, for a void element, "after the element")
            Op::StBefore(s, h) => st.before.push((s.clone(), *h)),
            Op::StAfter(s, h) => {
                if void {
                    st.after.insert(0, (s.clone(), *h));
                } else {
                    st.start_list.insert(0, (s.clone(), *h));
                }
            }
            Op::StReplace(s, h) => {
                st.replacement = Some((s.clone(), *h));
                st.start_removed = true;
            }
            Op::StRemove => st.start_removed = true,
            _ => {}
        },
        Item::End(op) => match op {
            Op::Before(s, h) => st.end_before.push((s.clone(), *h)),
            Op::After(s, h) => st.end_after.insert(0, (s.clone(), *h)),
            Op::Replace(s, h) => {
                st.end_replacement = Some((s.clone(), *h));
                st.end_tag_removed = true;
            }
            Op::Remove => st.end_tag_removed = true,
            Op::SetText(n) => st.end_name = Some(n.clone()),
            _ => {}
        },
    }
}

#[derive(Clone, Debug, PartialEq)]
enum Seg {
    Bytes(Vec<u8>),
    /// `self_closing` is None where the slash is decorative (HTML namespace)
    Tag { name: Vec<u8>, attrs: Vec<(Vec<u8>, Vec<u8>)>, self_closing: Option<bool> },
}

struct Out {
    segs: Vec<Seg>,
    enc: &'static encoding_rs::Encoding,
}

impl Out {
    fn bytes(&mut self, b: &[u8]) {
        if b.is_empty() {
            return;
        }
        if let Some(Seg::Bytes(v)) = self.segs.last_mut() {
            v.extend_from_slice(b);
        } else {
            self.segs.push(Seg::Bytes(b.to_vec()));
        }
    }
    fn content(&mut self, c: &(String, bool)) {
        let s = if c.1 { c.0.clone() } else { c.0.replace('&', "&amp;").replace('<', "&lt;").replace('>', "&gt;") };
        let b = self.enc.encode(&s).0.into_owned();
        self.bytes(&b);
    }
    fn contents(&mut self, cs: &[(String, bool)]) {
        for c in cs {
            self.content(c);
        }
    }
}

/// Second handler (`*`) fixed script and side handlers.
#[derive(Clone, Debug, PartialEq, Eq, Hash, Serialize, Deserialize)]
pub struct Plan {
    /// script of the handler on selector `a`
    pub a: Vec<Item>,
    /// script of a second handler on selector `*` (registered after `a`)
    pub star: Vec<Item>,
    pub comment_ops: Vec<Op>,
    pub text_ops: Vec<Op>,
    pub text_last_only: bool,
    pub doctype_remove: bool,
    pub end_append: Vec<(String, bool)>,
}

impl Plan {
    fn only_a(a: Vec<Item>) -> Plan {
        Plan { a, star: vec![], comment_ops: vec![], text_ops: vec![], text_last_only: true, doctype_remove: false, end_append: vec![] }
    }
}

/// `enc` may carry the suffix "+streaming": every content-inserting call then goes through its
/// `streaming_*` variant (same documented semantics).
fn plan_cfg(plan: &Plan, enc: &str) -> Cfg {
    let (enc, streaming) = match enc.strip_suffix("+streaming") {
        Some(e) => (e, true),
        None => (enc, false),
    };
    let mut hs = vec![];
    let split_items = |items: &[Item]| -> (Vec<Op>, Option<Vec<Op>>) {
        let el: Vec<Op> = items.iter().filter_map(|i| if let Item::El(o) = i { Some(o.clone()) } else { None }).collect();
        let end: Vec<Op> = items.iter().filter_map(|i| if let Item::End(o) = i { Some(o.clone()) } else { None }).collect();
        (el, if end.is_empty() { None } else { Some(end) })
    };
    if !plan.a.is_empty() {
        let (el, end) = split_items(&plan.a);
        hs.push(HSpec { end_tag_ops: end, ..HSpec::with_ops(HKind::Element, "a", el) });
    }
    if !plan.star.is_empty() {
        let (el, end) = split_items(&plan.star);
        hs.push(HSpec { end_tag_ops: end, ..HSpec::with_ops(HKind::Element, "*", el) });
    }
    if !plan.comment_ops.is_empty() {
        hs.push(HSpec::with_ops(HKind::DocComments, "", plan.comment_ops.clone()));
    }
    if !plan.text_ops.is_empty() {
        hs.push(HSpec { last_only: plan.text_last_only, ..HSpec::with_ops(HKind::DocText, "", plan.text_ops.clone()) });
    }
    if plan.doctype_remove {
        hs.push(HSpec::with_ops(HKind::DocDoctype, "", vec![Op::Remove]));
    }
    if !plan.end_append.is_empty() {
        hs.push(HSpec::with_ops(HKind::DocEnd, "", plan.end_append.iter().map(|(s, h)| Op::Append(s.clone(), *h)).collect()));
    }
    Cfg::with(hs).strict(false).enc(enc).streaming(streaming)
}

#[derive(Clone, Copy, PartialEq, Debug)]
enum Mode {
    Documented,
    /// end-side edits of an element closed by an ancestor's end tag land on that end-tag token,
    /// and a later element's end-side record overwrites an earlier one's (known finding)
    AsImplemented,
}

/// R-edit: (document, plan) -> expected output segments.
fn r_edit(evs: &[DEv], r: &Rendered, tree: &Tree, plan: &Plan, enc: &'static encoding_rs::Encoding, mode: Mode) -> (Vec<Seg>, bool, bool) {
    // per-node state
    let sel_a = SelList::one(Complex::single(Compound::one(Simple::Type("a".into()))));
    let mut states: Vec<ElState> = vec![ElState::default(); tree.nodes.len()];
    let mut any_handler = false;
    let mut implicit_edited = false;
    for (ni, n) in tree.nodes.iter().enumerate() {
        let mut st = ElState::default();
        if !plan.a.is_empty() && list_matches(&sel_a, tree, ni, NotMode::Css) {
            st.matched = true;
            for it in &plan.a {
                apply(&mut st, it, n.empty);
            }
        }
        if !plan.star.is_empty() {
            st.matched = true;
            for it in &plan.star {
                apply(&mut st, it, n.empty);
            }
        }
        if st.matched {
            any_handler = true;
        }
        let has_end_edits = st.any_end_side || !st.end_before.is_empty() || !st.end_after.is_empty() || st.end_tag_removed || st.end_name.is_some();
        if has_end_edits && n.closed_by.is_some() && !n.closed_by_own {
            implicit_edited = true;
        }
        states[ni] = st;
    }
    let mut out = Out { segs: vec![], enc };
    // suppression depth: content of removed/replaced elements is dropped with edits inside it
    let mut suppress: Vec<usize> = vec![]; // node indices whose content is being removed
    let suppressed = |s: &Vec<usize>| !s.is_empty();
    let mut seen_text_before: Option<usize> = None;
    let _ = &mut seen_text_before;
    for (ei, e) in evs.iter().enumerate() {
        let span = &r.bytes[r.spans[ei].0..r.spans[ei].1];
        match e {
            DEv::Open { .. } => {
                let ni = tree.node_of_ev[ei].unwrap();
                let n = &tree.nodes[ni];
                let st = states[ni].clone();
                if !suppressed(&suppress) {
                    out.contents(&st.before);
                    out.contents(&st.st_before);
                    if st.start_removed {
                        if let Some(c) = &st.replacement {
                            out.content(c);
                        }
                    } else if st.attr_edits.is_empty() && st.new_name.is_none() {
                        out.bytes(span);
                    } else {
                        let rt = parse_start_tag(span).expect("generated tag parses");
                        let mut attrs: Vec<(Vec<u8>, Vec<u8>)> = rt.attrs.iter().map(|a| (span[a.name.0..a.name.1].to_vec(), span[a.value.0..a.value.1].to_vec())).collect();
                        for op in &st.attr_edits {
                            match op {
                                Op::SetAttr(k, v) => {
                                    let lk = k.to_ascii_lowercase();
                                    let val = enc.encode(&v.replace('"', "&quot;")).0.into_owned();
                                    if let Some(a) = attrs.iter_mut().find(|(n, _)| n.to_ascii_lowercase() == lk.as_bytes()) {
                                        a.1 = val;
                                    } else {
                                        attrs.push((lk.into_bytes(), val));
                                    }
                                }
                                Op::RemoveAttr(k) => {
                                    let lk = k.to_ascii_lowercase();
                                    attrs.retain(|(n, _)| n.to_ascii_lowercase() != lk.as_bytes());
                                }
                                _ => {}
                            }
                        }
                        let name = st.new_name.clone().map(|n| n.into_bytes()).unwrap_or_else(|| span[rt.name.0..rt.name.1].to_vec());
                        let sc = if n.ns == Ns::Html { None } else { Some(rt.self_closing) };
                        out.segs.push(Seg::Tag { name, attrs, self_closing: sc });
                    }
                    out.contents(&st.st_after);
                    if n.empty {
                        // void / self-closing foreign element: `after` follows the start tag
                        out.contents(&st.after);
                    } else {
                        out.contents(&st.start_list);
                    }
                }
                if !n.empty && st.content_removed {
                    suppress.push(ni);
                }
            }
            DEv::Close(_) => {
                // elements closed by this end tag, innermost first
                let closed: Vec<usize> = (0..tree.nodes.len()).rev().filter(|&ni| tree.nodes[ni].closed_by == Some(ei)).collect();
                if closed.is_empty() {
                    if !suppressed(&suppress) {
                        out.bytes(span);
                    }
                    continue;
                }
                // leaving removed content: the element whose content is removed ends here
                let mut emit_from = 0usize; // index into `closed` from which output is visible
                for (k, ni) in closed.iter().enumerate() {
                    if let Some(pos) = suppress.iter().position(|s| s == ni) {
                        suppress.truncate(pos);
                        emit_from = k;
                    }
                }
                if suppressed(&suppress) {
                    continue;
                }
                let own = closed.iter().copied().find(|&ni| tree.nodes[ni].closed_by_own).unwrap();
                match mode {
                    Mode::Documented => {
                        for &ni in &closed[emit_from..] {
                            let st = &states[ni];
                            if ni == own {
                                break;
                            }
                            // implicitly closed: its inner end content and what follows it come
                            // right before the ancestor's end tag
                            let visible_inside = emit_from == 0 || closed[emit_from] != ni || !states[ni].content_removed;
                            if visible_inside {
                                out.contents(&st.end_list);
                            }
                            out.contents(&st.end_before);
                            out.contents(&st.end_after);
                            out.contents(&st.after);
                        }
                        let st = states[own].clone();
                        out.contents(&st.end_list);
                        out.contents(&st.end_before);
                        if st.end_removed || st.end_tag_removed {
                            if let Some(c) = &st.end_replacement {
                                out.content(c);
                            }
                        } else if let Some(n) = st.end_name.as_ref().or(st.new_name.as_ref()) {
                            out.bytes(format!("</{n}>").as_bytes());
                        } else {
                            out.bytes(span);
                        }
                        out.contents(&st.end_after);
                        out.contents(&st.after);
                    }
                    Mode::AsImplemented => {
                        // every closed element's record is moved onto this one end-tag token, in
                        // order innermost..outermost; an element-level record overwrites the token's
                        // mutations wholesale, explicit end-tag handlers add to them.
                        let mut before: Vec<(String, bool)> = vec![];
                        let mut after: Vec<(String, bool)> = vec![];
                        let mut removed = false;
                        let mut replacement: Option<(String, bool)> = None;
                        let mut name: Option<String> = None;
                        // (elements inside content that is being removed included: their end-tag
                        // records land on this token all the same)
                        let _ = emit_from;
                        for &ni in &closed[..] {
                            let st = &states[ni];
                            if st.end_mut {
                                before = st.end_list.clone();
                                after = st.after.clone();
                                removed = st.end_removed;
                                replacement = None;
                            }
                            if let Some(n) = &st.new_name {
                                name = Some(n.clone());
                            }
                            before.extend(st.end_before.iter().cloned());
                            for c in st.end_after.iter().rev() {
                                after.insert(0, c.clone());
                            }
                            if st.end_tag_removed {
                                removed = true;
                                if st.end_replacement.is_some() {
                                    replacement = st.end_replacement.clone();
                                }
                            }
                            if let Some(n) = &st.end_name {
                                name = Some(n.clone());
                            }
                        }
                        out.contents(&before);
                        if removed {
                            if let Some(c) = &replacement {
                                out.content(c);
                            }
                        } else if let Some(n) = name {
                            out.bytes(format!("</{n}>").as_bytes());
                        } else {
                            out.bytes(span);
                        }
                        out.contents(&after);
                    }
                }
            }
            DEv::Text(_) => {
                if suppressed(&suppress) {
                    continue;
                }
                if plan.text_ops.is_empty() {
                    out.bytes(span);
                    continue;
                }
                any_handler = true;
                // L0 fragmentation: one chunk with the text, one empty last chunk
                let chunks: Vec<&[u8]> = if plan.text_last_only { vec![b""] } else { vec![span, b""] };
                if plan.text_last_only {
                    out.bytes(span);
                }
                for ch in chunks {
                    let mut before = vec![];
                    let mut after = vec![];
                    let mut removed = false;
                    let mut repl = None;
                    let mut set: Option<String> = None;
                    for op in &plan.text_ops {
                        match op {
                            Op::Before(s, h) => before.push((s.clone(), *h)),
                            Op::After(s, h) => after.insert(0, (s.clone(), *h)),
                            Op::Replace(s, h) => {
                                removed = true;
                                repl = Some((s.clone(), *h));
                            }
                            Op::Remove => removed = true,
                            Op::SetText(s) => set = Some(s.clone()),
                            _ => {}
                        }
                    }
                    out.contents(&before);
                    if removed {
                        if let Some(c) = &repl {
                            out.content(c);
                        }
                    } else if let Some(s) = &set {
                        // set_str replaces the chunk's markup as is (documented: the caller escapes)
                        out.content(&(s.clone(), true));
                    } else {
                        out.bytes(ch);
                    }
                    out.contents(&after);
                }
            }
            DEv::Comment(_) => {
                if suppressed(&suppress) {
                    continue;
                }
                if plan.comment_ops.is_empty() {
                    out.bytes(span);
                    continue;
                }
                any_handler = true;
                let mut before = vec![];
                let mut after = vec![];
                let mut removed = false;
                let mut repl = None;
                let mut text: Option<String> = None;
                for op in &plan.comment_ops {
                    match op {
                        Op::Before(s, h) => before.push((s.clone(), *h)),
                        Op::After(s, h) => after.insert(0, (s.clone(), *h)),
                        Op::Replace(s, h) => {
                            removed = true;
                            repl = Some((s.clone(), *h));
                        }
                        Op::Remove => removed = true,
                        Op::SetText(s) => text = Some(s.clone()),
                        _ => {}
                    }
                }
                out.contents(&before);
                if removed {
                    if let Some(c) = &repl {
                        out.content(c);
                    }
                } else if let Some(t) = &text {
                    out.bytes(b"<!--");
                    out.bytes(&enc.encode(t).0);
                    out.bytes(b"-->");
                } else {
                    out.bytes(span);
                }
                out.contents(&after);
            }
            DEv::Doctype => {
                if suppressed(&suppress) {
                    continue;
                }
                if plan.doctype_remove {
                    any_handler = true;
                } else {
                    out.bytes(span);
                }
            }
        }
    }
    if !plan.end_append.is_empty() {
        any_handler = true;
        out.contents(&plan.end_append);
    }
    (out.segs, any_handler, implicit_edited)
}

fn match_segments(segs: &[Seg], actual: &[u8]) -> Result<(), String> {
    let mut pos = 0;
    for s in segs {
        match s {
            Seg::Bytes(b) => {
                if !actual[pos..].starts_with(b) {
                    return Err(format!("at output offset {pos}: expected {:?}, got {:?}", lossy(b), lossy(&actual[pos..(pos + b.len() + 8).min(actual.len())])));
                }
                pos += b.len();
            }
            Seg::Tag { name, attrs, self_closing } => {
                let Some(rt) = parse_start_tag(&actual[pos..]) else {
                    return Err(format!("at output offset {pos}: expected a start tag <{}…>, got {:?}", lossy(name), lossy(&actual[pos..(pos + 24).min(actual.len())])));
                };
                let t = &actual[pos..];
                let got_attrs: Vec<(Vec<u8>, Vec<u8>)> = rt.attrs.iter().map(|a| (t[a.name.0..a.name.1].to_vec(), t[a.value.0..a.value.1].to_vec())).collect();
                if t[rt.name.0..rt.name.1] != name[..] || got_attrs != *attrs || self_closing.is_some_and(|sc| sc != rt.self_closing) {
                    return Err(format!(
                        "modified start tag {:?}: expected name {:?} attrs {:?} self-closing {:?}, got attrs {:?} self-closing {}",
                        lossy(&t[..rt.end]), lossy(name), attrs.iter().map(|(a, b)| (lossy(a), lossy(b))).collect::<Vec<_>>(), self_closing,
                        got_attrs.iter().map(|(a, b)| (lossy(a), lossy(b))).collect::<Vec<_>>(), rt.self_closing
                    ));
                }
                pos += rt.end;
            }
        }
    }
    if pos != actual.len() {
        return Err(format!("output has {} extra bytes: {:?}", actual.len() - pos, lossy(&actual[pos..])));
    }
    Ok(())
}

fn cuts_in_tags(evs: &[DEv], r: &Rendered) -> Vec<usize> {
    evs.iter().zip(&r.spans).filter(|(e, s)| !matches!(e, DEv::Text(_)) && s.1 - s.0 >= 3).map(|(_, s)| s.0 + 2).collect()
}

/// Returns (message, is-known-finding-signature, any handler ran)
fn check(p: &Prepared, plan: &Plan, evs: &[DEv], cut: bool) -> (Option<(String, bool)>, usize, bool) {
    let r = if p.encoding == encoding_rs::UTF_8 { render(evs) } else { render_enc(evs, p.encoding) };
    let tree = build_tree(evs);
    let cuts = if cut { cuts_in_tags(evs, &r) } else { vec![] };
    let chunks = split(&r.bytes, &cuts);
    let rr = run(p, &chunks, true);
    let calls = rr.results.len();
    if !rr.all_ok() {
        return (Some((format!("run failed: {:?}", rr.first_failure().map(|(_, r)| r.short())), false)), calls, false);
    }
    let (segs, any, implicit) = r_edit(evs, &r, &tree, plan, p.encoding, Mode::Documented);
    OUTCOMES.with(|o| o.borrow_mut().push(crate::explore::digest(&rr.out)));
    match match_segments(&segs, &rr.out) {
        Ok(()) => (None, calls, any),
        Err(e) => {
            let known = implicit && {
                let (segs2, _, _) = r_edit(evs, &r, &tree, plan, p.encoding, Mode::AsImplemented);
                match_segments(&segs2, &rr.out).is_ok()
            };
            (
                Some((
                    format!(
                        "document `{}` plan a={:?} star={:?}{}{}: output `{}` differs from the documented edit: {e}",
                        lossy(&r.bytes), plan.a, plan.star,
                        if plan.comment_ops.is_empty() && plan.text_ops.is_empty() { String::new() } else { format!(" comment={:?} text={:?}", plan.comment_ops, plan.text_ops) },
                        if cut { " (cut inside every tag)" } else { "" }, lossy(&rr.out)
                    ),
                    known,
                )),
                calls,
                any,
            )
        }
    }
}

thread_local! {
    static OUTCOMES: std::cell::RefCell<Vec<u64>> = const { std::cell::RefCell::new(Vec::new()) };
}

pub fn replay(case: &Value) -> Option<String> {
    let plan: Plan = serde_json::from_value(case["plan"].clone()).ok()?;
    let evs: Vec<DEv> = serde_json::from_value(case["doc"].clone()).ok()?;
    let cut = case["cut"].as_bool()?;
    let enc = case["encoding"].as_str()?;
    let p = Prepared::new(plan_cfg(&plan, enc)).ok()?;
    check(&p, &plan, &evs, cut).0.map(|(m, _)| m)
}

fn doc_alphabet() -> Vec<DEv> {
    vec![
        DEv::open("a"),
        DEv::Open { name: "a".into(), attrs: AttrSet { raw: "  K=v  id='i' ".into(), parsed: vec![] }, slash: false },
        DEv::open("q"),
        DEv::open("br"),
        DEv::open_slash("a"),
        DEv::close("a"),
        DEv::close("q"),
        DEv::Text("t".into()),
        DEv::Comment("c".into()),
        // duplicate attribute names (different case), the duplicates not adjacent
        DEv::Open { name: "a".into(), attrs: AttrSet { raw: " id=1 k=v ID=2 K".into(), parsed: vec![] }, slash: false },
    ]
}

fn docs(max: usize, with_svg: bool) -> Vec<Vec<DEv>> {
    let alpha = doc_alphabet();
    let n = crate::alpha::count_upto(alpha.len(), max);
    let mut v = vec![];
    for i in 0..n {
        let mut idx = vec![];
        crate::alpha::seq_at(i, alpha.len(), &mut idx);
        let evs: Vec<DEv> = idx.iter().map(|&k| alpha[k].clone()).collect();
        if evs.windows(2).any(|w| matches!((&w[0], &w[1]), (DEv::Text(_), DEv::Text(_)))) {
            continue;
        }
        v.push(evs.clone());
        if with_svg && evs.len() < max && evs.iter().any(|e| matches!(e, DEv::Open { slash: true, .. })) {
            let mut w = vec![DEv::open("svg")];
            w.extend(evs);
            w.push(DEv::close("svg"));
            if build_tree(&w).in_domain {
                v.push(w);
            }
        }
    }
    v
}

fn run_plans(ctx: &Ctx, name: &str, docs: &[Vec<DEv>], plans: &[Plan], encs: &[&str], with_cut: bool) {
    let prepared: Vec<Vec<Prepared>> = plans.iter().map(|pl| encs.iter().map(|e| Prepared::new(plan_cfg(pl, e)).unwrap()).collect()).collect();
    par_for(docs.len(), 2, |di| {
        if ctx.over_time() {
            return;
        }
        let evs = &docs[di];
        for (pi, plan) in plans.iter().enumerate() {
            for (ei, enc) in encs.iter().enumerate() {
                for cut in [false, true] {
                    if cut && !with_cut {
                        continue;
                    }
                    let (m, calls, any) = check(&prepared[pi][ei], plan, evs, cut);
                    ctx.exec(calls);
                    ctx.validated(1);
                    if any && !cut && ei == 0 {
                        ctx.nontrivial.insert(digest(&(di, pi, name)));
                    }
                    if let Some((msg, known)) = m {
                        let case = json!({"plan": plan, "doc": evs, "cut": cut, "encoding": enc});
                        let c2 = case.clone();
                        if known {
                            ctx.known_or_violation("end-side-edits-on-ancestor-end-tag", msg, case, &|| replay(&c2));
                        } else {
                            ctx.violation(msg, case, &|| replay(&c2));
                        }
                    }
                }
            }
        }
        ctx.states.insert(digest(&(evs, name)));
        OUTCOMES.with(|o| {
            for d in o.borrow_mut().drain(..) {
                ctx.outcomes.insert(d);
            }
        });
        if di % 97 == 3 {
            ctx.sample(json!({"slice": name, "document": lossy(&render(evs).bytes), "plans": plans.len()}));
        }
    });
    if !ctx.capped.load(std::sync::atomic::Ordering::Relaxed) {
        ctx.level_done(name);
    }
}

/// Long and numerous content pieces, many attributes: sizes around the encoder's 63-byte stack
/// buffer, its 4 KiB heap buffer and the usual 32 / 64 counts.
fn scaled_plans(quick: bool) -> (Vec<Vec<DEv>>, Vec<Plan>) {
    let sizes: &[usize] = if quick { &[62, 63, 64, 1024, 4097] } else { &[31, 32, 33, 61, 62, 63, 64, 65, 127, 1023, 1024, 1025, 4095, 4096, 4097, 9000] };
    let mut plans = vec![];
    for &n in sizes {
        let x = "x".repeat(n);
        let payloads: Vec<(String, bool)> = vec![
            (x.clone(), true),
            (format!("{x}\u{e9}\u{416}y"), true),
            (format!("\u{e9}{x}"), false),
            (format!("{}<&>", "\u{e9}".repeat(n / 2 + 1)), false),
            (format!("{x}<i>&amp;</i>"), true),
        ];
        for (pl, html) in payloads {
            for mk in [Op::Before as fn(String, bool) -> Op, Op::After, Op::Prepend, Op::Append, Op::Replace, Op::SetInner] {
                plans.push(Plan::only_a(vec![Item::El(mk(pl.clone(), html))]));
            }
            plans.push(Plan::only_a(vec![Item::El(Op::SetAttr("k".into(), pl.clone()))]));
            plans.push(Plan::only_a(vec![Item::El(Op::Before(pl.clone(), html)), Item::El(Op::Before("|".into(), true)), Item::El(Op::Before(pl.clone(), !html))]));
            plans.push(Plan::only_a(vec![Item::End(Op::Before(pl.clone(), html)), Item::End(Op::After(pl.clone(), html))]));
        }
    }
    // many small pieces queued on one element
    for n in [33usize, 65] {
        plans.push(Plan::only_a((0..n).map(|i| Item::El(if i % 2 == 0 { Op::Before(format!("b{i};"), true) } else { Op::Append(format!("a{i};"), true) })).collect()));
        plans.push(Plan::only_a((0..n).map(|i| Item::El(Op::SetAttr(format!("n{i}"), format!("{i}")))).collect()));
    }
    let many = |n: usize| DEv::Open { name: "a".into(), attrs: AttrSet { raw: (0..n).map(|i| format!(" n{i}=v{i}")).collect::<String>() + " K=v id='i'", parsed: vec![] }, slash: false };
    let docs = vec![
        vec![DEv::Open { name: "a".into(), attrs: AttrSet { raw: "  K=v  id='i' ".into(), parsed: vec![] }, slash: false }, DEv::Text("t".into()), DEv::close("a"), DEv::Text("u".into())],
        vec![DEv::open("q"), DEv::open("a"), DEv::Text("t".into()), DEv::close("a"), DEv::close("q")],
        vec![many(33), DEv::Text("t".into()), DEv::close("a")],
        vec![many(65), DEv::close("a")],
        vec![DEv::open("br"), DEv::open_slash("a"), DEv::Text("t".into())],
    ];
    (docs, plans)
}

pub fn run_check(ctx: &Ctx) -> i32 {
    let quick = ctx.quick();
    {
        let (sdocs, splans) = scaled_plans(quick);
        run_plans(ctx, &format!("(0) {} scripts with long / numerous content pieces and attribute values (sizes around 63, 1024, 4096; 33 / 65 queued pieces) x 5 documents (also 33 / 65 attributes) x {{UTF-8, windows-1252, Shift_JIS}} x {{plain, streaming}} x L0 + cut in every tag", splans.len()), &sdocs, &splans, &["UTF-8", "windows-1252", "Shift_JIS", "windows-1252+streaming"], true);
    }
    let menu = element_menu(true);
    let small_menu = element_menu(false);
    // (1) every single op and every ordered pair of ops on `a`
    let mut plans1: Vec<Plan> = menu.iter().map(|i| Plan::only_a(vec![i.clone()])).collect();
    for a in &small_menu {
        for b in &small_menu {
            if !ambiguous(a, b) {
                plans1.push(Plan::only_a(vec![a.clone(), b.clone()]));
            }
        }
    }
    ctx.set_extra("element_scripts", json!(plans1.len()));
    let d3 = docs(3, true);
    let d4 = docs(4, true);
    run_plans(ctx, &format!("(1) {} scripts of <=2 calls on `a` x D<=3 (+svg-wrapped) x UTF-8 x {{plain, streaming_* variants}} x L0 + cut in every tag", plans1.len()), &d3, &plans1, &["UTF-8", "UTF-8+streaming"], true);
    // (2) two handlers on the same token / nested matched elements: `a` script x `*` script
    let star_scripts: Vec<Vec<Item>> = vec![
        vec![Item::El(Op::Before("\x01".into(), true)), Item::El(Op::Append("\x02".into(), true))],
        vec![Item::El(Op::After("\x03".into(), true)), Item::El(Op::Prepend("\x04".into(), true))],
        vec![Item::El(Op::SetAttr("s".into(), "1".into()))],
        vec![Item::End(Op::Before("\x05".into(), true))],
        // a second handler (on every element, so also on ancestors and descendants of `a`) that
        // removes, replaces, empties, unwraps or renames
        vec![Item::El(Op::Remove)],
        vec![Item::El(Op::Replace("\x06".into(), true))],
        vec![Item::El(Op::SetInner("\x07".into(), true))],
        vec![Item::El(Op::RemoveKeepContent)],
        vec![Item::El(Op::SetTagName("z".into()))],
        vec![Item::El(Op::RemoveKeepContent), Item::El(Op::Before("\x08".into(), true)), Item::El(Op::After("\x09".into(), true))],
    ];
    let mut plans2 = vec![];
    for a in &menu {
        for s in &star_scripts {
            if s.iter().all(|x| !ambiguous(a, x)) {
                plans2.push(Plan { star: s.clone(), ..Plan::only_a(vec![a.clone()]) });
            }
        }
    }
    run_plans(ctx, &format!("(2) {} (a-script, *-script) combinations x D<={} x {{UTF-8, windows-1252}}", plans2.len(), 4), &d4, &plans2, &["UTF-8", "windows-1252", "windows-1252+streaming"], false);
    // (3) comment / text / doctype / document-end menus, also inside removed content
    let mut plans3 = vec![];
    let tok_ops: Vec<Vec<Op>> = vec![
        vec![Op::Before("B".into(), true)],
        vec![Op::After("A<".into(), false)],
        vec![Op::Replace("R".into(), true)],
        vec![Op::Remove],
        vec![Op::Before("1".into(), true), Op::Before("2".into(), true), Op::After("3".into(), true), Op::After("4".into(), true)],
        vec![Op::Replace("R".into(), true), Op::Replace("S".into(), false)],
    ];
    for ops in &tok_ops {
        plans3.push(Plan { comment_ops: ops.clone(), ..Plan::only_a(vec![]) });
        plans3.push(Plan { text_ops: ops.clone(), text_last_only: true, ..Plan::only_a(vec![]) });
        plans3.push(Plan { comment_ops: ops.clone(), text_ops: vec![Op::Remove], text_last_only: false, ..Plan::only_a(vec![Item::El(Op::SetInner("I".into(), true))]) });
        plans3.push(Plan { comment_ops: ops.clone(), ..Plan::only_a(vec![Item::El(Op::Remove)]) });
    }
    plans3.push(Plan { comment_ops: vec![Op::SetText("new \u{e9}".into())], ..Plan::only_a(vec![]) });
    plans3.push(Plan { text_ops: vec![Op::Remove], text_last_only: false, ..Plan::only_a(vec![]) });
    plans3.push(Plan { text_ops: vec![Op::SetText("s<".into())], text_last_only: true, ..Plan::only_a(vec![]) });
    plans3.push(Plan { end_append: vec![("Z".into(), true), ("<z>".into(), false)], ..Plan::only_a(vec![Item::El(Op::After("q".into(), true))]) });
    run_plans(ctx, &format!("(3) {} comment/text/document-end plans x D<={} x {{UTF-8, windows-1252}} x L0 + cuts", plans3.len(), if quick { 3 } else { 4 }), if quick { &d3 } else { &d4 }, &plans3, &["UTF-8", "windows-1252", "UTF-8+streaming"], true);
    // (4) deeper documents with single ops
    let plans4: Vec<Plan> = small_menu.iter().map(|i| Plan::only_a(vec![i.clone()])).collect();
    run_plans(ctx, &format!("(4) {} single-call scripts x D<=4 x UTF-8 x L0 + cuts", plans4.len()), &d4, &plans4, &["UTF-8"], true);
    // (6) every void element of the parser's list (and case variants): content operations are
    // no-ops, before/after/replace/remove act on the single tag
    let void_docs: Vec<Vec<DEv>> = crate::docgen::VOID
        .iter()
        .copied()
        .chain(["BR", "Param", "keyGen"])
        .flat_map(|n| vec![vec![DEv::open("q"), DEv::open(n), DEv::Text("t".into()), DEv::close("q")], vec![DEv::open(n), DEv::open("a"), DEv::close("a")]])
        .collect();
    let mut plans6: Vec<Plan> = menu.iter().map(|i| Plan { star: vec![i.clone()], ..Plan::only_a(vec![]) }).collect();
    for a in &small_menu {
        for b in &small_menu {
            if !ambiguous(a, b) {
                plans6.push(Plan { star: vec![a.clone(), b.clone()], ..Plan::only_a(vec![]) });
            }
        }
    }
    run_plans(ctx, &format!("(6) {} scripts of <=2 calls on `*` x {} documents with each void element of the parser's list x UTF-8 x L0 + cuts", plans6.len(), void_docs.len()), &void_docs, &plans6, &["UTF-8"], true);
    if !quick {
        let mut plans5 = vec![];
        for a in &small_menu {
            for b in &small_menu {
                for c in &small_menu {
                    if !ambiguous(a, b) && !ambiguous(b, c) && !ambiguous(a, c) {
                        plans5.push(Plan::only_a(vec![a.clone(), b.clone(), c.clone()]));
                    }
                }
            }
        }
        run_plans(ctx, &format!("(5) {} scripts of 3 calls x D<=3", plans5.len()), &d3, &plans5, &["UTF-8"], false);
    }
    ctx.finish(
        "model_checking",
        RULE,
        &[
            "R-edit is written from the API documentation (before: call order; after/prepend: reverse call order; append: call order; set_inner_content/replace overwrite; content ops are no-ops on void elements; removed content drops edits inside it)",
            "call combinations whose documented meaning is undefined (two removal-class calls, start-tag after() mixed with prepend(), element-level end-side content mixed with explicit end-tag edits) are not generated",
        ],
        true,
    )
}
