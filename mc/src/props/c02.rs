//! C02 Chunk-boundary invariance of output and of everything handlers observe.

use crate::alpha::*;
use crate::common::*;
use crate::drive::*;
use crate::explore::*;
use serde_json::{Value, json};

const RULE: &str = "every string over F (len<=k) and B16 (len<=k) x observer, marker and rewriting handler sets x strict x encodings; each non-L0 schedule (every 1-cut, every 2-cut, byte-wise, empty writes, rewrite_str) is compared with the L0 run of the same (input, config): output bytes, API result kind and normalised handler log (text chunks merged per text node; exactly one last_in_text_node per node); non-trivial = distinct (input,config) with >=1 handler event and >=1 cut";

struct Reference {
    out: Vec<u8>,
    events: Vec<Ev>,
    fail: Option<u8>,
}

fn reference(p: &Prepared, input: &[u8]) -> Result<(Reference, RunResult), String> {
    let rr = run(p, &[input], true);
    if let Some(m) = rr.panicked() {
        return Err(format!("L0 run panicked: {m}"));
    }
    let fail = rr.first_failure().and_then(|(_, r)| r.err_kind());
    let mut events = if fail.is_some() {
        normalise_events_lenient(&rr.events)
    } else {
        normalise_events(&rr.events).map_err(|e| format!("L0 run: {e}"))?
    };
    strip_text_locs(&mut events);
    Ok((Reference { out: rr.out.clone(), events, fail }, rr))
}

fn compare(p: &Prepared, input: &[u8], sched: &Sched, r: &Reference) -> (Option<String>, usize) {
    let chunks = sched.chunks(input);
    let rr = run(p, &chunks, true);
    let calls = rr.results.len();
    if let Some(m) = rr.panicked() {
        return (Some(format!("panic: {m}")), calls);
    }
    let fail = rr.first_failure().and_then(|(_, r)| r.err_kind());
    if fail != r.fail {
        return (Some(format!("result kind differs: L0 {:?} vs {:?}", r.fail, fail)), calls);
    }
    let mut events = if fail.is_some() {
        normalise_events_lenient(&rr.events)
    } else {
        match normalise_events(&rr.events) {
            Ok(e) => e,
            Err(e) => return (Some(e), calls),
        }
    };
    strip_text_locs(&mut events);
    if fail.is_none() && rr.out != r.out {
        return (
            Some(format!("output differs: L0 {:?} vs {:?}", lossy(&r.out), lossy(&rr.out))),
            calls,
        );
    }
    if events != r.events {
        let i = events.iter().zip(r.events.iter()).position(|(a, b)| a != b).unwrap_or(events.len().min(r.events.len()));
        return (
            Some(format!(
                "handler log differs at event #{i}: L0 {:?} vs {:?} (lens {} vs {})",
                r.events.get(i),
                events.get(i),
                r.events.len(),
                events.len()
            )),
            calls,
        );
    }
    (None, calls)
}

fn compare_rewrite_str(p: &Prepared, input: &[u8], r: &Reference) -> Option<String> {
    let Ok(s) = std::str::from_utf8(input) else { return None };
    if p.encoding != encoding_rs::UTF_8 || p.cfg.adjust_charset {
        return None;
    }
    let (res, ev) = run_rewrite_str(p, s);
    match res {
        Ok(out) => {
            if r.fail.is_some() {
                return Some(format!("rewrite_str succeeded but single write failed with {:?}", r.fail));
            }
            if out.as_bytes() != r.out {
                return Some(format!("rewrite_str output {:?} != single-write output {:?}", out, lossy(&r.out)));
            }
            match normalise_events(&ev).map(|mut e| {
                strip_text_locs(&mut e);
                e
            }) {
                Ok(e) if e == r.events => None,
                Ok(_) => Some("rewrite_str handler log differs from single write".into()),
                Err(e) => Some(format!("rewrite_str: {e}")),
            }
        }
        Err((k, m)) => {
            if r.fail == Some(k) {
                None
            } else {
                Some(format!("rewrite_str failed ({k}: {m}) but single write gave {:?}", r.fail))
            }
        }
    }
}

pub fn check(p: &Prepared, input: &[u8], sched: Option<&Sched>) -> Option<String> {
    let (r, _) = match reference(p, input) {
        Ok(r) => r,
        Err(e) => return Some(e),
    };
    match sched {
        Some(s) => compare(p, input, s, &r).0,
        None => compare_rewrite_str(p, input, &r),
    }
}

pub fn replay(case: &Value) -> Option<String> {
    if case["kind"].as_str() == Some("str-settings") {
        return rewrite_str_settings_case(case["strict"].as_bool()?, case["esi"].as_bool()?, STR_SETTINGS_DOCS[case["doc"].as_u64()? as usize]);
    }
    let cfg: Cfg = serde_json::from_value(case["cfg"].clone()).ok()?;
    let input = unhex(case["input_hex"].as_str()?);
    let sched: Option<Sched> = serde_json::from_value(case["sched"].clone()).ok()?;
    let p = Prepared::new(cfg).ok()?;
    check(&p, &input, sched.as_ref())
}

fn sweep(ctx: &Ctx, name: &str, space: Space, cfgs: &[Prepared], lv: Levels) {
    sweep_space(ctx, name, space, &|i, raw| {
        let mut scheds = vec![];
        for p in cfgs {
            let input = adapt_to_encoding(raw, p.encoding);
            let report = |msg: String, s: Option<&Sched>| {
                let cfg = p.cfg.clone();
                let inp = input.clone();
                let sc = s.cloned();
                ctx.violation(
                    msg,
                    json!({"cfg": cfg, "input_hex": hex(&input), "input_lossy": lossy(&input), "sched": sc}),
                    &|| {
                        let p2 = Prepared::new(cfg.clone()).unwrap();
                        check(&p2, &inp, sc.as_ref())
                    },
                );
            };
            let (r, rr0) = match reference(p, &input) {
                Ok(r) => r,
                Err(e) => {
                    report(e, Some(&Sched::whole()));
                    continue;
                }
            };
            ctx.exec(rr0.results.len());
            ctx.outcomes.insert(digest(&(&r.events, &r.out)));
            schedules(input.len(), lv, &mut scheds);
            for s in &scheds {
                let (m, calls) = compare(p, &input, s, &r);
                ctx.exec(calls);
                ctx.validated(1);
                ctx.states.insert(digest(&(&input, &s.cuts, s.empty_at)));
                if let Some(msg) = m {
                    report(msg, Some(s));
                }
            }
            if lv.empties {
                ctx.exec(2);
                ctx.validated(1);
                if let Some(msg) = compare_rewrite_str(p, &input, &r) {
                    report(msg, None);
                }
            }
            if !r.events.is_empty() && input.len() >= 2 {
                ctx.nontrivial.insert(digest(&(&input, &p.cfg)));
            }
        }
        if i % 40_009 == 11 {
            ctx.sample(json!({"space": space.label(), "input": lossy(raw), "configs": cfgs.len(), "schedules_for_last_config": scheds.len()}));
        }
    });
}

/// `rewrite_str` given a `RewriteStrSettings` behaves like `rewrite_str` / `write`+`end` given
/// `Settings` with the same flags and handlers (every combination of the two flags).
fn rewrite_str_settings_case(strict: bool, esi: bool, doc: &str) -> Option<String> {
    use lol_html::{RewriteStrSettings, Settings, element, rewrite_str};
    use std::cell::RefCell;
    use std::rc::Rc;
    let run = |use_str_settings: bool| -> (Result<String, String>, Vec<String>) {
        let log: Rc<RefCell<Vec<String>>> = Default::default();
        let l2 = log.clone();
        let h = element!("*", move |el| {
            l2.borrow_mut().push(format!("{} can_have_content={} ns={}", el.tag_name(), el.can_have_content(), el.namespace_uri()));
            Ok(())
        });
        let r = std::panic::catch_unwind(std::panic::AssertUnwindSafe(|| {
            if use_str_settings {
                rewrite_str(doc, RewriteStrSettings::new().append_element_content_handler(h).with_strict(strict).with_enable_esi_tags(esi))
            } else {
                rewrite_str(doc, Settings::new().append_element_content_handler(h).with_strict(strict).with_enable_esi_tags(esi))
            }
        }));
        let res = match r {
            Ok(Ok(s)) => Ok(s),
            Ok(Err(e)) => Err(e.to_string()),
            Err(_) => Err("panic".into()),
        };
        let l = log.borrow().clone();
        (res, l)
    };
    let (a, la) = run(true);
    let (b, lb) = run(false);
    if a != b || la != lb {
        return Some(format!("rewrite_str with RewriteStrSettings(strict={strict}, enable_esi_tags={esi}) on {doc:?}: {a:?} / {la:?}, with Settings and the same flags: {b:?} / {lb:?}"));
    }
    None
}

const STR_SETTINGS_DOCS: &[&str] = &["<esi:include src=a>x</esi:include><esi:comment t=1>", "<select><xmp><b>x</b></xmp>", "<p>t</p><svg><esi:include/></svg>", "<template><select></template><title>t</title>"];

fn rewrite_str_settings_sweep(ctx: &Ctx) {
    for strict in [false, true] {
        for esi in [false, true] {
            for (di, doc) in STR_SETTINGS_DOCS.iter().enumerate() {
                ctx.exec(2);
                ctx.validated(1);
                ctx.nontrivial.insert(digest(&(strict, esi, di)));
                if let Some(msg) = rewrite_str_settings_case(strict, esi, doc) {
                    let case = json!({"kind": "str-settings", "strict": strict, "esi": esi, "doc": di});
                    ctx.violation(msg, case, &|| rewrite_str_settings_case(strict, esi, doc));
                }
            }
        }
    }
    ctx.level_done("RewriteStrSettings vs Settings: {strict} x {enable_esi_tags} x 4 documents through rewrite_str");
}

/// Documents whose sizes sit just below, at and just above the implementation's thresholds.
fn scaled_sweep(ctx: &Ctx, cfgs: &[Prepared]) {
    let docs = scaled_docs(ctx.quick());
    let quick = ctx.quick();
    par_for(docs.len(), 1, |i| {
        if ctx.over_time() {
            return;
        }
        let (label, raw) = &docs[i];
        for p in cfgs {
            let input = adapt_to_encoding(raw, p.encoding);
            let report = |msg: String, s: Option<&Sched>| {
                let cfg = p.cfg.clone();
                let inp = input.clone();
                let sc = s.cloned();
                ctx.violation(
                    msg,
                    json!({"cfg": cfg, "document": label, "input_hex": hex(&input), "input_lossy": lossy(&input[..input.len().min(120)]), "sched": sc}),
                    &|| {
                        let p2 = Prepared::new(cfg.clone()).unwrap();
                        check(&p2, &inp, sc.as_ref())
                    },
                );
            };
            let (r, rr0) = match reference(p, &input) {
                Ok(r) => r,
                Err(e) => {
                    report(e, Some(&Sched::whole()));
                    continue;
                }
            };
            ctx.exec(rr0.results.len());
            ctx.outcomes.insert(digest(&(&r.events, &r.out)));
            for s in &scaled_scheds(input.len(), quick) {
                let (m, calls) = compare(p, &input, s, &r);
                ctx.exec(calls);
                ctx.validated(1);
                ctx.states.insert(digest(&(i, s.cuts.len(), s.cuts.first(), s.empty_at)));
                if let Some(msg) = m {
                    report(msg, Some(s));
                }
            }
            ctx.exec(2);
            if let Some(msg) = compare_rewrite_str(p, &input, &r) {
                report(msg, None);
            }
            if !r.events.is_empty() {
                ctx.nontrivial.insert(digest(&(&input, &p.cfg)));
            }
        }
        if i % 97 == 3 {
            ctx.sample(json!({"space": "scaled documents", "document": label, "configs": cfgs.len()}));
        }
    });
    if !ctx.capped.load(std::sync::atomic::Ordering::Relaxed) {
        ctx.level_done(&format!("{} scaled documents (sizes around 12, 32, 64, 256, 1024, 2048) x {} configs x fixed chunk sizes + cuts around the thresholds + rewrite_str", docs.len(), cfgs.len()));
    }
}

pub fn run_check(ctx: &Ctx) -> i32 {
    let obs = observer_menu();
    let mark = marker_menu();
    let mut full = prep_menu(&obs, &["doc-all", "el(a[b])", "text(a)", "endtag(a)", "text(title)+text(script)", "everything"], &[true, false], "UTF-8");
    full.extend(prep_menu(&mark, &[], &[true], "UTF-8"));
    let mut small = prep_menu(&obs, &["everything"], &[true, false], "UTF-8");
    small.extend(prep_menu(&mark, &["mark-text(*)+comments(*)", "rewrite-el(*)"], &[true], "UTF-8"));
    let enc_cfgs: Vec<Prepared> = ["Shift_JIS", "GB18030", "windows-1252"]
        .iter()
        .flat_map(|e| {
            let mut v = prep_menu(&obs, &["everything"], &[true], e);
            v.extend(prep_menu(&mark, &["mark-text(*)+comments(*)"], &[true], e));
            v
        })
        .collect();
    let l1 = Levels { l1: true, l2_max_len: 0, bytewise: true, empties: false };
    let k = F.len();
    rewrite_str_settings_sweep(ctx);
    {
        let mut sc = prep_menu(&obs, &["everything", "el(a[b])", "text(title)+text(script)"], &[false], "UTF-8");
        sc.extend(prep_menu(&mark, &["mark-text(*)+comments(*)", "rewrite-el(*)", "mark-el(a)"], &[false], "UTF-8"));
        sc.extend(prep_menu(&obs, &["everything"], &[false], "Shift_JIS"));
        sc.extend(prep_menu(&mark, &["mark-text(*)+comments(*)"], &[false], "windows-1252"));
        scaled_sweep(ctx, &sc);
    }
    if ctx.quick() {
        let l12 = Levels { l1: true, l2_max_len: 16, bytewise: true, empties: true };
        sweep(ctx, "F<=2 x 18 configs x L1,L2(len<=16),LB,LE,rewrite_str", Space::Frags { k, max: 2 }, &full, l12);
        sweep(ctx, "Fcore<=3 x 18 configs x L1,LB", Space::Frags { k: F_CORE, max: 3 }, &full, l1);
        sweep(ctx, "F<=3 x 4 configs x L1,LB", Space::Frags { k, max: 3 }, &small, l1);
        sweep(ctx, "B16<=4 x 4 configs x L1,L2,LB,LE", Space::Bytes { max: 4 }, &small, l12);
        sweep(ctx, "F<=2 x 3 encodings x 2 configs x L1,L2,LB,LE", Space::Frags { k, max: 2 }, &enc_cfgs, l12);
        let all36: Vec<Prepared> = all_encodings().iter().flat_map(|e| prep_menu(&obs, &["everything"], &[false], e.name())).collect();
        sweep(ctx, "F<=2 x all 36 encodings x everything-observers x L1,LB", Space::Frags { k, max: 2 }, &all36, l1);
        // foreign content: mode switches inside svg / math, tags handed from the scanner to the lexer
        let mut fcfgs = prep_menu(&obs, &["el(*)", "endtag(a)", "text(a)", "everything"], &[false], "UTF-8");
        fcfgs.push(Prepared::new(Cfg::with(vec![HSpec::obs(HKind::Element, "svg"), HSpec::obs(HKind::Element, "math"), HSpec::obs_end_tag("svg"), HSpec::obs(HKind::Element, "a")]).strict(false)).unwrap());
        sweep(ctx, "10 foreign contexts (also preceded by text) x 58 foreign tag fragments<=2 x 5 configs x L1,LB", Space::Foreign { max: 2 }, &fcfgs, l1);
    } else {
        let l_all = Levels { l1: true, l2_max_len: 48, bytewise: true, empties: true };
        sweep(ctx, "F<=3 x 18 configs x L1,L2,LB,LE,rewrite_str", Space::Frags { k, max: 3 }, &full, l_all);
        sweep(ctx, "Fcore<=4 x 18 configs x L1,LB", Space::Frags { k: F_CORE, max: 4 }, &full, l1);
        sweep(ctx, "F<=4 x 4 configs x L1,LB", Space::Frags { k, max: 4 }, &small, l1);
        sweep(ctx, "B16<=5 x 4 configs x L1,L2,LB,LE", Space::Bytes { max: 5 }, &small, l_all);
        sweep(ctx, "B16<=6 x 4 configs x L1,LB", Space::Bytes { max: 6 }, &small, l1);
        sweep(ctx, "F<=3 x 3 encodings x 2 configs x L1,L2,LB,LE", Space::Frags { k, max: 3 }, &enc_cfgs, l_all);
        let mut fcfgs = prep_menu(&obs, &["el(*)", "endtag(a)", "text(a)", "everything", "doc-all"], &[true, false], "UTF-8");
        fcfgs.push(Prepared::new(Cfg::with(vec![HSpec::obs(HKind::Element, "svg"), HSpec::obs(HKind::Element, "math"), HSpec::obs_end_tag("svg"), HSpec::obs(HKind::Element, "a")]).strict(false)).unwrap());
        sweep(ctx, "10 foreign contexts x 58 foreign tag fragments<=2 x 11 configs x L1,L2,LB,LE", Space::Foreign { max: 2 }, &fcfgs, l_all);
    }
    ctx.finish(
        "model_checking",
        RULE,
        &[
            "differential oracle: the L0 (single write) run of the same build is the reference, so a defect that affects every schedule identically is invisible here (C01/C03/C07 cover those)",
            "alphabets and bounds as listed in levels_completed",
        ],
        true,
    )
}
