//! Driver: builds real `lol_html` rewriters from a declarative configuration, runs a call
//! history (`write*`, `end`) against them and records everything observable.
//!
//! Every engine and every property check goes through this module, so that an execution is
//! always an execution of the implementation compiled from /repo's working tree.

use encoding_rs::Encoding;
use lol_html::errors::RewritingError;
use lol_html::html_content::{
    Comment, ContentType, Doctype, DocumentEnd, Element, EndTag, TextChunk, TextType,
};
use lol_html::{
    AsciiCompatibleEncoding, DocumentContentHandlers, ElementContentHandlers, HtmlRewriter,
    LocalHandlerTypes, MemorySettings, OutputSink, Selector, Settings,
    send::SendHandlerTypes,
};
use serde::{Deserialize, Serialize};
use std::borrow::Cow;
use std::panic::{AssertUnwindSafe, catch_unwind};
use std::sync::atomic::{AtomicUsize, Ordering};
use std::sync::{Arc, Mutex};

// ---------------------------------------------------------------------------------------------
// Observations
// ---------------------------------------------------------------------------------------------

pub type Loc = (usize, usize);

#[derive(Clone, Debug, PartialEq, Eq, Hash, Serialize, Deserialize)]
pub struct AttrObs {
    pub name: String,
    pub name_pc: String,
    pub value: String,
    pub nloc: Option<Loc>,
    pub vloc: Option<Loc>,
}

#[derive(Clone, Debug, PartialEq, Eq, Hash, Serialize, Deserialize)]
pub enum Ev {
    El {
        reg: u16,
        name: String,
        name_pc: String,
        attrs: Vec<AttrObs>,
        ns: String,
        self_closing: bool,
        can_have_content: bool,
        removed: bool,
        loc: Loc,
    },
    EndTag {
        reg: u16,
        name: String,
        name_pc: String,
        loc: Loc,
    },
    Comment {
        reg: u16,
        text: String,
        loc: Loc,
    },
    Doctype {
        reg: u16,
        name: Option<String>,
        public: Option<String>,
        system: Option<String>,
        loc: Loc,
    },
    Text {
        reg: u16,
        text: String,
        ty: u8,
        last: bool,
        loc: Loc,
    },
    DocEnd {
        reg: u16,
    },
    /// Result of a fallible setter executed by an op script: (reg, op index, ok).
    OpRes {
        reg: u16,
        op: u16,
        ok: bool,
    },
    /// Re-read of an element after ops were applied.
    ReRead {
        reg: u16,
        name: String,
        attrs: Vec<(String, String)>,
    },
    BailOut {
        idx: u16,
        err: u8,
    },
}

impl Ev {
    pub fn reg(&self) -> u16 {
        match self {
            Ev::El { reg, .. }
            | Ev::EndTag { reg, .. }
            | Ev::Comment { reg, .. }
            | Ev::Doctype { reg, .. }
            | Ev::Text { reg, .. }
            | Ev::DocEnd { reg }
            | Ev::OpRes { reg, .. }
            | Ev::ReRead { reg, .. } => *reg,
            Ev::BailOut { idx, .. } => 10_000 + *idx,
        }
    }
}

pub fn text_type_code(t: TextType) -> u8 {
    match t {
        TextType::PlainText => 0,
        TextType::RCData => 1,
        TextType::RawText => 2,
        TextType::ScriptData => 3,
        TextType::Data => 4,
        TextType::CDataSection => 5,
    }
}

pub const ERR_MEM: u8 = 1;
pub const ERR_AMBIG: u8 = 2;
pub const ERR_HANDLER: u8 = 3;

pub fn err_code(e: &RewritingError) -> u8 {
    match e {
        RewritingError::MemoryLimitExceeded(_) => ERR_MEM,
        RewritingError::ParsingAmbiguity(_) => ERR_AMBIG,
        RewritingError::ContentHandlerError(_) => ERR_HANDLER,
        _ => 9,
    }
}

#[derive(Clone, Debug, PartialEq, Eq, Hash, Serialize, Deserialize)]
pub enum CallRes {
    Ok,
    Err(u8, String),
    Panic(String),
}

impl CallRes {
    pub fn is_ok(&self) -> bool {
        matches!(self, CallRes::Ok)
    }
    pub fn err_kind(&self) -> Option<u8> {
        match self {
            CallRes::Err(k, _) => Some(*k),
            _ => None,
        }
    }
    pub fn short(&self) -> String {
        match self {
            CallRes::Ok => "Ok".into(),
            CallRes::Err(k, _) => format!("Err{k}"),
            CallRes::Panic(m) => format!("Panic({})", m.chars().take(80).collect::<String>()),
        }
    }
}

#[derive(Clone, Debug, PartialEq, Eq, Hash, Serialize, Deserialize)]
pub enum SinkEv {
    SetEncoding(String),
    Chunk(Vec<u8>),
}

#[derive(Default)]
pub struct Shared {
    pub events: Vec<Ev>,
    pub sink: Vec<SinkEv>,
    pub out: Vec<u8>,
    pub handler_calls: usize,
}

pub type SharedRef = Arc<Mutex<Shared>>;

pub struct LogSink(pub SharedRef);

impl OutputSink for LogSink {
    fn handle_chunk(&mut self, chunk: &[u8]) {
        let mut s = self.0.lock().unwrap();
        s.out.extend_from_slice(chunk);
        s.sink.push(SinkEv::Chunk(chunk.to_vec()));
    }
    fn set_encoding(&mut self, enc: AsciiCompatibleEncoding) {
        let e: &'static Encoding = enc.into();
        self.0
            .lock()
            .unwrap()
            .sink
            .push(SinkEv::SetEncoding(e.name().to_string()));
    }
}

// ---------------------------------------------------------------------------------------------
// Configuration
// ---------------------------------------------------------------------------------------------

#[derive(Clone, Copy, Debug, PartialEq, Eq, Hash, Serialize, Deserialize)]
pub enum HKind {
    Element,
    Text,
    Comments,
    DocDoctype,
    DocComments,
    DocText,
    DocEnd,
}

/// One mutation call. Which calls apply to which rewritable unit is decided in `apply_*`;
/// a call that the unit does not have is skipped.
#[derive(Clone, Debug, PartialEq, Eq, Hash, Serialize, Deserialize)]
pub enum Op {
    Before(String, bool),
    After(String, bool),
    Prepend(String, bool),
    Append(String, bool),
    Replace(String, bool),
    SetInner(String, bool),
    Remove,
    RemoveKeepContent,
    SetAttr(String, String),
    RemoveAttr(String),
    SetTagName(String),
    /// On `el.start_tag()`.
    StBefore(String, bool),
    StAfter(String, bool),
    StReplace(String, bool),
    StRemove,
    /// Comment::set_text / TextChunk::set_str / EndTag::set_name
    SetText(String),
    /// `get_attribute(name)` + `has_attribute(name)` are logged as an OpRes (ok = has).
    GetAttr(String),
    /// `el.start_tag().set_name(..)` (unvalidated setter)
    StSetName(String),
}

fn ct(html: bool) -> ContentType {
    if html {
        ContentType::Html
    } else {
        ContentType::Text
    }
}

#[derive(Clone, Debug, PartialEq, Eq, Hash, Serialize, Deserialize)]
pub struct HSpec {
    pub kind: HKind,
    /// Selector for Element/Text/Comments; ignored for document-level kinds.
    pub sel: String,
    pub ops: Vec<Op>,
    /// Element only: register an `on_end_tag` handler running these ops on the end tag.
    pub end_tag_ops: Option<Vec<Op>>,
    /// Log what the handler sees (observer). Marker-only handlers may switch it off.
    pub log: bool,
    /// Text handlers only: apply `ops` only to the chunk with `last_in_text_node` (makes a
    /// mutating text handler insensitive to how the node is fragmented into chunks).
    #[serde(default)]
    pub last_only: bool,
    /// Put this handler into the same `ElementContentHandlers` / `DocumentContentHandlers`
    /// entry as the previous registration of the same class (same selector), if that entry's
    /// slot for this kind is still free. Entries keep the position of their first handler.
    #[serde(default)]
    pub merge: bool,
    /// Use the `streaming_*` variant of every content-inserting call (the content is written to
    /// the streaming sink in several pieces, one of them split inside a character).
    #[serde(default)]
    pub streaming: bool,
}

impl HSpec {
    pub fn obs(kind: HKind, sel: &str) -> Self {
        HSpec {
            kind,
            sel: sel.to_string(),
            ops: vec![],
            end_tag_ops: None,
            log: true,
            last_only: false,
            merge: false,
            streaming: false,
        }
    }
    pub fn obs_end_tag(sel: &str) -> Self {
        HSpec {
            kind: HKind::Element,
            sel: sel.to_string(),
            ops: vec![],
            end_tag_ops: Some(vec![]),
            log: true,
            last_only: false,
            merge: false,
            streaming: false,
        }
    }
    pub fn with_ops(kind: HKind, sel: &str, ops: Vec<Op>) -> Self {
        HSpec {
            kind,
            sel: sel.to_string(),
            ops,
            end_tag_ops: None,
            log: true,
            last_only: false,
            merge: false,
            streaming: false,
        }
    }
}

#[derive(Clone, Debug, PartialEq, Eq, Hash, Serialize, Deserialize)]
pub struct Cfg {
    pub handlers: Vec<HSpec>,
    pub strict: bool,
    pub encoding: String,
    pub esi: bool,
    pub adjust_charset: bool,
    /// (max_allowed_memory_usage, preallocated_parsing_buffer_size)
    pub mem: Option<(usize, usize)>,
    pub graceful_mem: bool,
    pub graceful_handler: bool,
    /// Number of bail-out handlers; handler i appends "\x01B{i}\x02" as Html.
    pub bail_out_handlers: u16,
    /// Fail (return Err) in the k-th handler invocation (1-based), after logging.
    pub fail_at: Option<usize>,
    /// Extra content every bail-out handler appends before its marker: (content, as Html).
    #[serde(default)]
    pub bail_out_payload: Option<(String, bool)>,
    /// Text put inside every bail-out marker: handler i appends "\x01B{i}{suffix}\x02".
    #[serde(default)]
    pub bail_marker_suffix: String,
}

impl Default for Cfg {
    fn default() -> Self {
        Cfg {
            handlers: vec![],
            strict: true,
            encoding: "UTF-8".into(),
            esi: false,
            adjust_charset: false,
            mem: None,
            graceful_mem: false,
            graceful_handler: false,
            bail_out_handlers: 0,
            fail_at: None,
            bail_out_payload: None,
            bail_marker_suffix: String::new(),
        }
    }
}

impl Cfg {
    pub fn with(handlers: Vec<HSpec>) -> Self {
        Cfg {
            handlers,
            ..Default::default()
        }
    }
    pub fn strict(mut self, s: bool) -> Self {
        self.strict = s;
        self
    }
    /// Registers adjacent handlers of one selector (and adjacent document-level handlers) in
    /// one combined `ElementContentHandlers` / `DocumentContentHandlers` entry where possible.
    /// Every content-inserting call goes through its `streaming_*` variant.
    pub fn streaming(mut self, on: bool) -> Self {
        for h in &mut self.handlers {
            h.streaming = on;
        }
        self
    }
    pub fn merged(mut self, m: bool) -> Self {
        for h in &mut self.handlers {
            h.merge = m;
        }
        self
    }
    pub fn enc(mut self, e: &str) -> Self {
        self.encoding = e.to_string();
        self
    }
    pub fn label(&self) -> String {
        let hs: Vec<String> = self
            .handlers
            .iter()
            .map(|h| {
                format!(
                    "{:?}({}){}{}",
                    h.kind,
                    h.sel,
                    if h.ops.is_empty() { "" } else { "+ops" },
                    if h.end_tag_ops.is_some() { "+endtag" } else { "" }
                )
            })
            .collect();
        format!(
            "[{}] strict={} enc={}{}{}{}{}{}{}",
            hs.join(","),
            self.strict,
            self.encoding,
            if self.esi { " esi" } else { "" },
            if self.adjust_charset { " meta" } else { "" },
            self.mem
                .map(|(m, p)| format!(" mem={m}/{p}"))
                .unwrap_or_default(),
            if self.graceful_mem { " gmem" } else { "" },
            if self.graceful_handler { " ghandler" } else { "" },
            self.fail_at
                .map(|k| format!(" fail_at={k}"))
                .unwrap_or_default(),
        )
    }
}

/// A configuration with its selectors parsed once (selector parsing dominates otherwise).
pub struct Prepared {
    pub cfg: Cfg,
    /// shared copy of `cfg` (for the hang watchdog's case record)
    pub cfg_shared: Arc<Cfg>,
    pub selectors: Arc<Vec<Option<Selector>>>,
    pub encoding: &'static Encoding,
}

impl Prepared {
    pub fn new(cfg: Cfg) -> Result<Self, String> {
        let mut selectors = vec![];
        for h in &cfg.handlers {
            match h.kind {
                HKind::Element | HKind::Text | HKind::Comments => {
                    let s: Selector = h
                        .sel
                        .parse()
                        .map_err(|e| format!("selector {:?}: {e}", h.sel))?;
                    selectors.push(Some(s));
                }
                _ => selectors.push(None),
            }
        }
        let encoding = Encoding::for_label(cfg.encoding.as_bytes())
            .ok_or_else(|| format!("unknown encoding {}", cfg.encoding))?;
        Ok(Prepared {
            cfg_shared: Arc::new(cfg.clone()),
            cfg,
            selectors: Arc::new(selectors),
            encoding,
        })
    }

    /// Same handlers and selectors (shared, not re-parsed), other settings changed by `f`.
    /// `f` must not touch `handlers` or `encoding`.
    pub fn variant(&self, f: impl FnOnce(&mut Cfg)) -> Prepared {
        let mut cfg = self.cfg.clone();
        f(&mut cfg);
        debug_assert!(cfg.handlers == self.cfg.handlers && cfg.encoding == self.cfg.encoding);
        Prepared {
            cfg_shared: if TRACK_CASES.load(Ordering::Relaxed) { Arc::new(cfg.clone()) } else { self.cfg_shared.clone() },
            cfg,
            selectors: self.selectors.clone(),
            encoding: self.encoding,
        }
    }
}

// ---------------------------------------------------------------------------------------------
// Handler bodies
// ---------------------------------------------------------------------------------------------

fn loc(l: lol_html::html_content::SourceLocation) -> Loc {
    let r = l.bytes();
    (r.start, r.end)
}

type HErr = Box<dyn std::error::Error + Send + Sync + 'static>;

/// Returns Err if this handler invocation is the one selected to fail.
fn tick(shared: &SharedRef, fail_at: Option<usize>) -> Result<(), HErr> {
    let mut s = shared.lock().unwrap();
    s.handler_calls += 1;
    if Some(s.handler_calls) == fail_at {
        return Err("injected handler failure".into());
    }
    Ok(())
}

fn push(shared: &SharedRef, ev: Ev) {
    shared.lock().unwrap().events.push(ev);
}

macro_rules! observe_element {
    ($el:expr, $reg:expr) => {{
        let el = &$el;
        Ev::El {
            reg: $reg,
            name: el.tag_name(),
            name_pc: el.tag_name_preserve_case(),
            attrs: el
                .attributes()
                .iter()
                .map(|a| AttrObs {
                    name: a.name(),
                    name_pc: a.name_preserve_case(),
                    value: a.value(),
                    nloc: a.name_source_location().map(loc),
                    vloc: a.value_source_location().map(loc),
                })
                .collect(),
            ns: {
                // the two accessors must name the same namespace
                let a = el.namespace_uri().to_string();
                let b = el.namespace_uri_c_str().to_string_lossy().into_owned();
                if a == b { a } else { format!("{a} (namespace_uri) != {b} (namespace_uri_c_str)") }
            },
            self_closing: el.is_self_closing(),
            can_have_content: el.can_have_content(),
            removed: el.removed(),
            loc: loc(el.source_location()),
        }
    }};
}

/// Content with this prefix makes the streaming handler fail after its first pieces (only when the
/// spec's `streaming` flag is on; otherwise it is ordinary content).
pub const FAILING_STREAM_PREFIX: &str = "\u{1}SF";

/// A streaming handler that writes `s` in pieces: an empty piece, the first half as a string, the
/// rest as UTF-8 chunks split after its first byte (inside a character if it is multi-byte).
fn streamer(s: &str, html: bool) -> Box<dyn lol_html::html_content::StreamingHandler + Send> {
    let s = s.to_string();
    lol_html::streaming!(move |sink| {
        let c = ct(html);
        let mid = (0..=s.len() / 2).rev().find(|i| s.is_char_boundary(*i)).unwrap_or(0);
        sink.write_str("", c);
        sink.write_str(&s[..mid], c);
        if s.starts_with(FAILING_STREAM_PREFIX) {
            // a streaming handler that fails after it has written something
            return Err("injected streaming handler failure".into());
        }
        let rest = &s.as_bytes()[mid..];
        if rest.len() >= 2 {
            sink.write_utf8_chunk(&rest[..1], c).map_err(|e| e.to_string())?;
            // an empty chunk while a character may be incomplete
            sink.write_utf8_chunk(&[], c).map_err(|e| e.to_string())?;
            sink.write_utf8_chunk(&rest[1..], c).map_err(|e| e.to_string())?;
        } else {
            sink.write_utf8_chunk(rest, c).map_err(|e| e.to_string())?;
        }
        Ok(())
    })
}

macro_rules! apply_element_ops {
    ($el:expr, $ops:expr, $reg:expr, $shared:expr, $streaming:expr) => {{
        let el = $el;
        let streaming: bool = $streaming;
        let mut reread = false;
        for (i, op) in $ops.iter().enumerate() {
            match op {
                Op::Before(s, h) if streaming => el.streaming_before(streamer(s, *h)),
                Op::After(s, h) if streaming => el.streaming_after(streamer(s, *h)),
                Op::Prepend(s, h) if streaming => el.streaming_prepend(streamer(s, *h)),
                Op::Append(s, h) if streaming => el.streaming_append(streamer(s, *h)),
                Op::Replace(s, h) if streaming => el.streaming_replace(streamer(s, *h)),
                Op::SetInner(s, h) if streaming => el.streaming_set_inner_content(streamer(s, *h)),
                Op::StBefore(s, h) if streaming => el.start_tag().streaming_before(streamer(s, *h)),
                Op::StAfter(s, h) if streaming => el.start_tag().streaming_after(streamer(s, *h)),
                Op::StReplace(s, h) if streaming => el.start_tag().streaming_replace(streamer(s, *h)),
                Op::Before(s, h) => el.before(s, ct(*h)),
                Op::After(s, h) => el.after(s, ct(*h)),
                Op::Prepend(s, h) => el.prepend(s, ct(*h)),
                Op::Append(s, h) => el.append(s, ct(*h)),
                Op::Replace(s, h) => el.replace(s, ct(*h)),
                Op::SetInner(s, h) => el.set_inner_content(s, ct(*h)),
                Op::Remove => el.remove(),
                Op::RemoveKeepContent => el.remove_and_keep_content(),
                Op::SetAttr(n, v) => {
                    let ok = el.set_attribute(n, v).is_ok();
                    push($shared, Ev::OpRes { reg: $reg, op: i as u16, ok });
                    reread = true;
                }
                Op::RemoveAttr(n) => {
                    el.remove_attribute(n);
                    reread = true;
                }
                Op::SetTagName(n) => {
                    let ok = el.set_tag_name(n).is_ok();
                    push($shared, Ev::OpRes { reg: $reg, op: i as u16, ok });
                    reread = true;
                }
                Op::StBefore(s, h) => el.start_tag().before(s, ct(*h)),
                Op::StAfter(s, h) => el.start_tag().after(s, ct(*h)),
                Op::StReplace(s, h) => el.start_tag().replace(s, ct(*h)),
                Op::StRemove => el.start_tag().remove(),
                Op::StSetName(n) => el.start_tag().set_name(n.clone()),
                Op::GetAttr(n) => {
                    let has = el.has_attribute(n);
                    let v = el.get_attribute(n);
                    push($shared, Ev::OpRes { reg: $reg, op: i as u16, ok: has });
                    push(
                        $shared,
                        Ev::ReRead {
                            reg: $reg,
                            name: format!("get:{n}"),
                            attrs: v.into_iter().map(|v| (n.clone(), v)).collect(),
                        },
                    );
                }
                Op::SetText(_) => {}
            }
        }
        if reread {
            push(
                $shared,
                Ev::ReRead {
                    reg: $reg,
                    name: el.tag_name(),
                    attrs: el.attributes().iter().map(|a| (a.name(), a.value())).collect(),
                },
            );
        }
    }};
}

fn apply_end_tag_ops(t: &mut EndTag<'_>, ops: &[Op], streaming: bool) {
    for op in ops {
        match op {
            Op::Before(s, h) if streaming => t.streaming_before(streamer(s, *h)),
            Op::After(s, h) if streaming => t.streaming_after(streamer(s, *h)),
            Op::Replace(s, h) if streaming => t.streaming_replace(streamer(s, *h)),
            Op::Before(s, h) => t.before(s, ct(*h)),
            Op::After(s, h) => t.after(s, ct(*h)),
            Op::Replace(s, h) => t.replace(s, ct(*h)),
            Op::Remove => t.remove(),
            Op::SetText(s) | Op::SetTagName(s) => t.set_name_str(s.clone()),
            _ => {}
        }
    }
}

fn apply_comment_ops(c: &mut Comment<'_>, ops: &[Op], reg: u16, shared: &SharedRef, streaming: bool) {
    for (i, op) in ops.iter().enumerate() {
        match op {
            Op::Before(s, h) if streaming => c.streaming_before(streamer(s, *h)),
            Op::After(s, h) if streaming => c.streaming_after(streamer(s, *h)),
            Op::Replace(s, h) if streaming => c.streaming_replace(streamer(s, *h)),
            Op::Before(s, h) => c.before(s, ct(*h)),
            Op::After(s, h) => c.after(s, ct(*h)),
            Op::Replace(s, h) => c.replace(s, ct(*h)),
            Op::Remove => c.remove(),
            Op::SetText(s) => {
                let ok = c.set_text(s).is_ok();
                push(
                    shared,
                    Ev::OpRes {
                        reg,
                        op: i as u16,
                        ok,
                    },
                );
            }
            _ => {}
        }
    }
}

fn apply_text_ops(t: &mut TextChunk<'_>, ops: &[Op], streaming: bool) {
    for op in ops {
        match op {
            Op::Before(s, h) if streaming => t.streaming_before(streamer(s, *h)),
            Op::After(s, h) if streaming => t.streaming_after(streamer(s, *h)),
            Op::Replace(s, h) if streaming => t.streaming_replace(streamer(s, *h)),
            Op::Before(s, h) => t.before(s, ct(*h)),
            Op::After(s, h) => t.after(s, ct(*h)),
            Op::Replace(s, h) => t.replace(s, ct(*h)),
            Op::Remove => t.remove(),
            Op::SetText(s) => t.set_str(s.clone()),
            _ => {}
        }
    }
}

fn observe_comment(c: &Comment<'_>, reg: u16) -> Ev {
    Ev::Comment {
        reg,
        text: c.text(),
        loc: loc(c.source_location()),
    }
}

fn observe_text(t: &TextChunk<'_>, reg: u16) -> Ev {
    Ev::Text {
        reg,
        text: t.as_str().to_string(),
        ty: text_type_code(t.text_type()),
        last: t.last_in_text_node(),
        loc: loc(t.source_location()),
    }
}

fn observe_doctype(d: &Doctype<'_>, reg: u16) -> Ev {
    Ev::Doctype {
        reg,
        name: d.name(),
        public: d.public_id(),
        system: d.system_id(),
        loc: loc(d.source_location()),
    }
}

fn observe_end_tag(t: &EndTag<'_>, reg: u16) -> Ev {
    Ev::EndTag {
        reg,
        name: t.name(),
        name_pc: t.name_preserve_case(),
        loc: loc(t.source_location()),
    }
}

macro_rules! make_builder {
    ($fname:ident, $H:ty, $new:expr) => {
        pub fn $fname<'s>(p: &'s Prepared, shared: &SharedRef) -> Settings<'static, 's, $H> {
            let cfg = &p.cfg;
            let mut settings: Settings<'static, 's, $H> = $new;
            let fail_at = cfg.fail_at;
            // pending (not yet appended) entries, so that `merge` registrations can join them
            let mut pend_el: Option<(usize, [bool; 3], ElementContentHandlers<'static, $H>)> = None;
            let mut pend_doc: Option<([bool; 4], DocumentContentHandlers<'static, $H>)> = None;
            macro_rules! el_slot {
                ($idx:expr, $h:expr, $slot:expr) => {{
                    let can = $h.merge
                        && pend_el.as_ref().is_some_and(|(i, used, _)| cfg.handlers[*i].sel == $h.sel && !used[$slot]);
                    if !can {
                        if let Some((i, _, e)) = pend_el.take() {
                            settings = settings.append_element_content_handler((Cow::Borrowed(p.selectors[i].as_ref().unwrap()), e));
                        }
                        pend_el = Some(($idx, [false; 3], ElementContentHandlers::default()));
                    }
                    let (i, mut used, e) = pend_el.take().unwrap();
                    used[$slot] = true;
                    (i, used, e)
                }};
            }
            macro_rules! doc_slot {
                ($h:expr, $slot:expr) => {{
                    let can = $h.merge && pend_doc.as_ref().is_some_and(|(used, _)| !used[$slot]);
                    if !can {
                        if let Some((_, d)) = pend_doc.take() {
                            settings = settings.append_document_content_handler(d);
                        }
                        pend_doc = Some(([false; 4], DocumentContentHandlers::default()));
                    }
                    let (mut used, d) = pend_doc.take().unwrap();
                    used[$slot] = true;
                    (used, d)
                }};
            }
            for (idx, h) in cfg.handlers.iter().enumerate() {
                let reg = idx as u16;
                let sh = shared.clone();
                let ops = h.ops.clone();
                let do_log = h.log;
                let last_only = h.last_only;
                let streaming = h.streaming;
                match h.kind {
                    HKind::Element => {
                        let end_ops = h.end_tag_ops.clone();
                        let handler = move |el: &mut Element<'_, '_, $H>| {
                            if do_log {
                                push(&sh, observe_element!(*el, reg));
                            }
                            tick(&sh, fail_at)?;
                            apply_element_ops!(&mut *el, ops, reg, &sh, streaming);
                            if let Some(end_ops) = &end_ops {
                                let sh2 = sh.clone();
                                let end_ops = end_ops.clone();
                                // Registration may fail (void elements): recorded, not fatal.
                                let r = el.on_end_tag(lol_html::end_tag!(move |t| {
                                    if do_log {
                                        push(&sh2, observe_end_tag(t, reg));
                                    }
                                    tick(&sh2, fail_at)?;
                                    apply_end_tag_ops(t, &end_ops, streaming);
                                    Ok(())
                                }));
                                if r.is_err() {
                                    push(&sh, Ev::OpRes { reg, op: u16::MAX, ok: false });
                                }
                            }
                            Ok(())
                        };
                        let (i, used, e) = el_slot!(idx, h, 0);
                        pend_el = Some((i, used, e.element(handler)));
                    }
                    HKind::Text => {
                        let handler = move |t: &mut TextChunk<'_>| {
                            if do_log {
                                push(&sh, observe_text(t, reg));
                            }
                            tick(&sh, fail_at)?;
                            if !last_only || t.last_in_text_node() {
                                apply_text_ops(t, &ops, streaming);
                            }
                            Ok(())
                        };
                        let (i, used, e) = el_slot!(idx, h, 1);
                        pend_el = Some((i, used, e.text(handler)));
                    }
                    HKind::Comments => {
                        let handler = move |c: &mut Comment<'_>| {
                            if do_log {
                                push(&sh, observe_comment(c, reg));
                            }
                            tick(&sh, fail_at)?;
                            apply_comment_ops(c, &ops, reg, &sh, streaming);
                            Ok(())
                        };
                        let (i, used, e) = el_slot!(idx, h, 2);
                        pend_el = Some((i, used, e.comments(handler)));
                    }
                    HKind::DocDoctype => {
                        let handler = move |d: &mut Doctype<'_>| {
                            if do_log {
                                push(&sh, observe_doctype(d, reg));
                            }
                            tick(&sh, fail_at)?;
                            if ops.iter().any(|o| matches!(o, Op::Remove)) {
                                d.remove();
                            }
                            Ok(())
                        };
                        let (used, d) = doc_slot!(h, 0);
                        pend_doc = Some((used, d.doctype(handler)));
                    }
                    HKind::DocComments => {
                        let handler = move |c: &mut Comment<'_>| {
                            if do_log {
                                push(&sh, observe_comment(c, reg));
                            }
                            tick(&sh, fail_at)?;
                            apply_comment_ops(c, &ops, reg, &sh, streaming);
                            Ok(())
                        };
                        let (used, d) = doc_slot!(h, 1);
                        pend_doc = Some((used, d.comments(handler)));
                    }
                    HKind::DocText => {
                        let handler = move |t: &mut TextChunk<'_>| {
                            if do_log {
                                push(&sh, observe_text(t, reg));
                            }
                            tick(&sh, fail_at)?;
                            if !last_only || t.last_in_text_node() {
                                apply_text_ops(t, &ops, streaming);
                            }
                            Ok(())
                        };
                        let (used, d) = doc_slot!(h, 2);
                        pend_doc = Some((used, d.text(handler)));
                    }
                    HKind::DocEnd => {
                        let handler = move |e: &mut DocumentEnd<'_>| {
                            push(&sh, Ev::DocEnd { reg });
                            tick(&sh, fail_at)?;
                            for op in &ops {
                                if let Op::Append(s, h) = op {
                                    e.append(s, ct(*h));
                                }
                            }
                            Ok(())
                        };
                        let (used, d) = doc_slot!(h, 3);
                        pend_doc = Some((used, d.end(handler)));
                    }
                }
            }
            if let Some((i, _, e)) = pend_el.take() {
                settings = settings.append_element_content_handler((Cow::Borrowed(p.selectors[i].as_ref().unwrap()), e));
            }
            if let Some((_, d)) = pend_doc.take() {
                settings = settings.append_document_content_handler(d);
            }
            for i in 0..cfg.bail_out_handlers {
                let sh = shared.clone();
                let payload = cfg.bail_out_payload.clone();
                let suffix = cfg.bail_marker_suffix.clone();
                settings = settings.append_bail_out_handler(
                    move |e: &RewritingError, b: &mut lol_html::html_content::BailOut<'_>| {
                        push(&sh, Ev::BailOut { idx: i, err: err_code(e) });
                        if let Some((c, h)) = &payload {
                            b.append(c, ct(*h));
                        }
                        b.append(&format!("\x01B{i}{suffix}\x02"), ContentType::Html);
                    },
                );
            }
            let mut ms = MemorySettings::new()
                .with_graceful_bail_out_on_memory_limit_exceeded(cfg.graceful_mem);
            if let Some((max, pre)) = cfg.mem {
                ms = ms
                    .with_max_allowed_memory_usage(max)
                    .with_preallocated_parsing_buffer_size(pre);
            }
            // the builder calls are order-independent by contract: both orders are used
            let enc = AsciiCompatibleEncoding::new(p.encoding).expect("ascii-compatible");
            if cfg.handlers.len() % 2 == 1 {
                settings
                    .with_graceful_bail_out_on_content_handler_error(cfg.graceful_handler)
                    .with_adjust_charset_on_meta_tag(cfg.adjust_charset)
                    .with_enable_esi_tags(cfg.esi)
                    .with_strict(cfg.strict)
                    .with_memory_settings(ms)
                    .with_encoding(enc)
            } else {
                settings
                    .with_encoding(enc)
                    .with_memory_settings(ms)
                    .with_strict(cfg.strict)
                    .with_enable_esi_tags(cfg.esi)
                    .with_adjust_charset_on_meta_tag(cfg.adjust_charset)
                    .with_graceful_bail_out_on_content_handler_error(cfg.graceful_handler)
            }
        }
    };
}

make_builder!(build_local, LocalHandlerTypes, Settings::new());
make_builder!(build_send, SendHandlerTypes, Settings::new_send());

// ---------------------------------------------------------------------------------------------
// Running
// ---------------------------------------------------------------------------------------------

#[derive(Clone, Debug, Default, PartialEq, Eq, Serialize, Deserialize)]
pub struct RunResult {
    pub sink: Vec<SinkEv>,
    pub out: Vec<u8>,
    /// Cumulative output length after each API call (writes…, then end if called).
    pub out_len_after: Vec<usize>,
    /// Number of handler-log events after each API call.
    pub ev_len_after: Vec<usize>,
    /// Number of sink events after each API call.
    pub sink_len_after: Vec<usize>,
    pub results: Vec<CallRes>,
    pub events: Vec<Ev>,
    /// (usage, max) from the accounting hook after each successful write.
    pub mem_after: Vec<(usize, usize)>,
    /// Real capacities in bytes (parsing buffer, open-element stack) after each successful write.
    pub real_after: Vec<(usize, usize)>,
    /// Number of handler invocations (the fault-injection index space).
    pub handler_calls: usize,
}

impl RunResult {
    pub fn all_ok(&self) -> bool {
        self.results.iter().all(|r| r.is_ok())
    }
    pub fn first_failure(&self) -> Option<(usize, &CallRes)> {
        self.results.iter().enumerate().find(|(_, r)| !r.is_ok())
    }
    pub fn panicked(&self) -> Option<&str> {
        self.results.iter().find_map(|r| match r {
            CallRes::Panic(m) => Some(m.as_str()),
            _ => None,
        })
    }
}

pub fn panic_msg(e: Box<dyn std::any::Any + Send>) -> String {
    if let Some(s) = e.downcast_ref::<&str>() {
        s.to_string()
    } else if let Some(s) = e.downcast_ref::<String>() {
        s.clone()
    } else {
        "<non-string panic>".into()
    }
}

static PANIC_HOOK_SILENCED: AtomicUsize = AtomicUsize::new(0);

/// Silence the default panic printer once; every execution is wrapped in `catch_unwind`.
pub fn silence_panics() {
    if PANIC_HOOK_SILENCED.fetch_add(1, Ordering::SeqCst) == 0 {
        std::panic::set_hook(Box::new(|_| {}));
    }
}

fn to_res(r: Result<(), RewritingError>) -> CallRes {
    match r {
        Ok(()) => CallRes::Ok,
        Err(e) => CallRes::Err(err_code(&e), e.to_string()),
    }
}

// ---------------------------------------------------------------------------------------------
// Hang watchdog: every execution marks its thread busy; a watchdog thread (main.rs) reports an
// execution that does not return ("every public call terminates", C15).
// ---------------------------------------------------------------------------------------------

pub struct Heart {
    /// milliseconds since process start (| 1) at which the current execution began; 0 = idle
    pub busy_since_ms: std::sync::atomic::AtomicU64,
    /// the case being executed (only recorded when TRACK_CASES is set)
    pub case: Mutex<Option<(Arc<Cfg>, Vec<Vec<u8>>)>>,
}

pub static HEARTS: Mutex<Vec<Arc<Heart>>> = Mutex::new(Vec::new());
pub static TRACK_CASES: std::sync::atomic::AtomicBool = std::sync::atomic::AtomicBool::new(false);
static START: std::sync::OnceLock<std::time::Instant> = std::sync::OnceLock::new();

pub fn now_ms() -> u64 {
    START.get_or_init(std::time::Instant::now).elapsed().as_millis() as u64
}

thread_local! {
    static HEART: Arc<Heart> = {
        let h = Arc::new(Heart { busy_since_ms: std::sync::atomic::AtomicU64::new(0), case: Mutex::new(None) });
        HEARTS.lock().unwrap().push(h.clone());
        h
    };
}

/// Marks the current thread busy until the guard is dropped.
pub struct Busy;

pub fn busy(case: Option<(&Prepared, &[&[u8]])>) -> Busy {
    HEART.with(|h| {
        if TRACK_CASES.load(Ordering::Relaxed) {
            if let Some((p, chunks)) = case {
                *h.case.lock().unwrap() = Some((p.cfg_shared.clone(), chunks.iter().map(|c| c.to_vec()).collect()));
            }
        }
        h.busy_since_ms.store(now_ms() | 1, Ordering::Relaxed);
    });
    Busy
}

impl Drop for Busy {
    fn drop(&mut self) {
        HEART.with(|h| h.busy_since_ms.store(0, Ordering::Relaxed));
    }
}

/// Run `chunks` as successive writes, then `end()` if `do_end`. Stops at the first failing
/// call (the rewriter is poisoned). Panics are caught and recorded.
pub fn run(p: &Prepared, chunks: &[&[u8]], do_end: bool) -> RunResult {
    run_opts(p, chunks, do_end, false)
}

/// `after_error_probe`: after a failing call, additionally issue `write(b"")` and `write(b"x")` and
/// record its result (must be a panic, must not touch the sink) — used by C12.
pub fn run_opts(p: &Prepared, chunks: &[&[u8]], do_end: bool, after_error_probe: bool) -> RunResult {
    let _busy = busy(Some((p, chunks)));
    let shared: SharedRef = Arc::new(Mutex::new(Shared::default()));
    let mut rr = RunResult::default();
    let sh = shared.clone();
    let snapshot = |rr: &mut RunResult| {
        let s = sh.lock().unwrap();
        rr.out_len_after.push(s.out.len());
        rr.ev_len_after.push(s.events.len());
        rr.sink_len_after.push(s.sink.len());
    };

    let built = catch_unwind(AssertUnwindSafe(|| {
        HtmlRewriter::new(build_local(p, &shared), LogSink(shared.clone()))
    }));
    let mut rewriter = match built {
        Ok(r) => r,
        Err(e) => {
            rr.results.push(CallRes::Panic(format!("new: {}", panic_msg(e))));
            snapshot(&mut rr);
            let s = shared.lock().unwrap();
            rr.sink = s.sink.clone();
            rr.out = s.out.clone();
            rr.events = s.events.clone();
            return rr;
        }
    };

    let mut failed = false;
    for c in chunks {
        let r = catch_unwind(AssertUnwindSafe(|| rewriter.write(c)));
        let res = match r {
            Ok(r) => to_res(r),
            Err(e) => CallRes::Panic(panic_msg(e)),
        };
        snapshot(&mut rr);
        if res.is_ok() {
            rr.mem_after.push(rewriter.verif_memory_usage());
            rr.real_after.push(rewriter.verif_real_capacity());
        }
        let ok = res.is_ok();
        rr.results.push(res);
        if !ok {
            failed = true;
            break;
        }
    }
    if failed {
        if after_error_probe && !matches!(rr.results.last(), Some(CallRes::Panic(_))) {
            // two probes: an empty write and a non-empty one (both must panic)
            for probe in [&b""[..], &b"x"[..]] {
                let r = catch_unwind(AssertUnwindSafe(|| rewriter.write(probe)));
                let res = match r {
                    Ok(r) => to_res(r),
                    Err(e) => CallRes::Panic(panic_msg(e)),
                };
                snapshot(&mut rr);
                rr.results.push(res);
            }
        }
        // dropping a poisoned rewriter must not panic either
        let _ = catch_unwind(AssertUnwindSafe(move || drop(rewriter)));
    } else if do_end {
        let r = catch_unwind(AssertUnwindSafe(move || rewriter.end()));
        let res = match r {
            Ok(r) => to_res(r),
            Err(e) => CallRes::Panic(panic_msg(e)),
        };
        snapshot(&mut rr);
        rr.results.push(res);
    } else {
        let _ = catch_unwind(AssertUnwindSafe(move || drop(rewriter)));
    }
    let s = shared.lock().unwrap();
    rr.sink = s.sink.clone();
    rr.out = s.out.clone();
    rr.events = s.events.clone();
    rr.handler_calls = s.handler_calls;
    rr
}

/// Split `input` at `cuts` (strictly increasing positions in 1..len) into chunks.
pub fn split<'a>(input: &'a [u8], cuts: &[usize]) -> Vec<&'a [u8]> {
    let mut v = Vec::with_capacity(cuts.len() + 1);
    let mut prev = 0;
    for &c in cuts {
        v.push(&input[prev..c]);
        prev = c;
    }
    v.push(&input[prev..]);
    v
}

/// `rewrite_str` through the same configuration (UTF-8 inputs only).
pub fn run_rewrite_str(p: &Prepared, input: &str) -> (Result<String, (u8, String)>, Vec<Ev>) {
    let _busy = busy(Some((p, &[input.as_bytes()])));
    let shared: SharedRef = Arc::new(Mutex::new(Shared::default()));
    let settings = build_local(p, &shared);
    let r = catch_unwind(AssertUnwindSafe(|| lol_html::rewrite_str(input, settings)));
    let ev = shared.lock().unwrap().events.clone();
    match r {
        Ok(Ok(s)) => (Ok(s), ev),
        Ok(Err(e)) => (Err((err_code(&e), e.to_string())), ev),
        Err(e) => (Err((99, panic_msg(e))), ev),
    }
}
