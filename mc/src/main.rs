//! mc — bounded-exhaustive model checker harness for lol-html (see /verif/DESIGN.md).

mod alpha;
mod cdrive;
mod common;
mod docgen;
mod drive;
mod explore;
mod props;
mod rattr;
mod rmatch;
mod rtok;
mod tokseam;

use explore::Ctx;

fn usage() -> ! {
    eprintln!("usage: mc <C01..C18> [--tier quick|thorough] [--replay <file>]");
    std::process::exit(2);
}

/// Watchdog: an execution that does not return within VERIF_HANG_S seconds (default 90) is a
/// hang. For C15 ("every public call terminates") that is a violation with the recorded case as
/// replay file; for every other check it is a machinery error (exit 3).
fn spawn_watchdog(prop: String, replay_path: Option<String>) {
    let limit_ms: u64 = std::env::var("VERIF_HANG_S").ok().and_then(|s| s.parse().ok()).unwrap_or(90) * 1000;
    std::thread::spawn(move || {
        loop {
            std::thread::sleep(std::time::Duration::from_millis(1000));
            let now = drive::now_ms();
            let hearts: Vec<std::sync::Arc<drive::Heart>> = drive::HEARTS.lock().unwrap().clone();
            for h in hearts {
                let b = h.busy_since_ms.load(std::sync::atomic::Ordering::Relaxed);
                if b != 0 && now.saturating_sub(b) > limit_ms {
                    let case = h.case.lock().unwrap().clone();
                    if prop == "C15" {
                        let path = replay_path.clone().unwrap_or_else(|| {
                            let root = std::env::var("VERIF_ROOT").unwrap_or_else(|_| "/verif".into());
                            let dir = format!("{root}/replays/C15");
                            let _ = std::fs::create_dir_all(&dir);
                            let path = format!("{dir}/hang.json");
                            let body = match &case {
                                Some((cfg, chunks)) => serde_json::json!({"property": "C15", "message": "hang", "case": {"kind": "hang", "cfg": **cfg, "chunks_hex": chunks.iter().map(|c| explore::hex(c)).collect::<Vec<_>>()}}),
                                None => serde_json::json!({"property": "C15", "message": "hang", "case": {"kind": "hang-unrecorded"}}),
                            };
                            let _ = std::fs::write(&path, serde_json::to_string_pretty(&body).unwrap());
                            path
                        });
                        println!(
                            "VIOLATION property=C15 replay={path} :: a call into the rewriter did not return within {} s (hang){}",
                            limit_ms / 1000,
                            case.map(|(cfg, chunks)| format!(": config {} writes {:?}", cfg.label(), chunks.iter().map(|c| explore::lossy(&c[..c.len().min(40)])).collect::<Vec<_>>())).unwrap_or_default()
                        );
                        std::process::exit(1);
                    } else {
                        println!("MACHINERY-ERROR: an execution did not return within {} s (hang); this check cannot continue (C15 decides termination)", limit_ms / 1000);
                        std::process::exit(3);
                    }
                }
            }
        }
    });
}

fn main() {
    let args: Vec<String> = std::env::args().skip(1).collect();
    if args.is_empty() {
        usage();
    }
    let prop = args[0].to_uppercase();
    let mut tier = std::env::var("VERIF_TIER").unwrap_or_else(|_| "quick".into());
    let mut replay: Option<String> = None;
    let mut i = 1;
    while i < args.len() {
        match args[i].as_str() {
            "--tier" => {
                tier = args.get(i + 1).cloned().unwrap_or_else(|| usage());
                i += 2;
            }
            "--shape" => {
                // child mode of the C15 scaled-shape test
                let shape = args.get(i + 1).cloned().unwrap_or_else(|| usage());
                let n: usize = args.get(i + 3).and_then(|s| s.parse().ok()).unwrap_or_else(|| usage());
                drive::silence_panics();
                std::process::exit(props::c15::shape_child(&shape, n));
            }
            "--lifecycle-child" => {
                drive::silence_panics();
                std::process::exit(props::c17::lifecycle_child());
            }
            "--replay" => {
                replay = Some(args.get(i + 1).cloned().unwrap_or_else(|| usage()));
                i += 2;
            }
            _ => usage(),
        }
    }
    if tier != "quick" && tier != "thorough" {
        usage();
    }
    drive::silence_panics();
    let Some(entry) = props::REGISTRY.iter().find(|e| e.id == prop) else {
        eprintln!("unknown property {prop}");
        std::process::exit(2);
    };
    if prop == "C15" {
        drive::TRACK_CASES.store(true, std::sync::atomic::Ordering::Relaxed);
    }
    spawn_watchdog(prop.clone(), replay.clone());
    if let Some(path) = replay {
        let body = std::fs::read_to_string(&path).expect("read replay file");
        let v: serde_json::Value = serde_json::from_str(&body).expect("parse replay file");
        match (entry.replay)(&v["case"]) {
            Some(msg) => {
                println!("VIOLATION property={} replay={} :: {}", entry.id, path, msg);
                std::process::exit(1);
            }
            None => {
                println!("replay of {path}: property {} holds on this case", entry.id);
                std::process::exit(0);
            }
        }
    }
    let ctx = Ctx::new(entry.id, &tier);
    // a panic of the harness itself (not of the subject, which is caught per run) is a machinery
    // failure, never a verdict
    let code = match std::panic::catch_unwind(std::panic::AssertUnwindSafe(|| (entry.run)(&ctx))) {
        Ok(code) => code,
        Err(e) => {
            println!("MACHINERY-ERROR property={} the harness panicked: {}", entry.id, drive::panic_msg(e));
            3
        }
    };
    std::process::exit(code);
}
