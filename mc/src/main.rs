//! mc — bounded-exhaustive model checker harness for lol-html (see /verif/DESIGN.md).

mod alpha;
mod cdrive;
mod common;
mod docgen;
mod drive;
mod explore;
mod props;
mod rattr;
mod rmatch;
mod rtok;
mod tokseam;

use explore::Ctx;

fn usage() -> ! {
    eprintln!("usage: mc <C01..C18> [--tier quick|thorough] [--replay <file>]");
    std::process::exit(2);
}

fn main() {
    let args: Vec<String> = std::env::args().skip(1).collect();
    if args.is_empty() {
        usage();
    }
    let prop = args[0].to_uppercase();
    let mut tier = std::env::var("VERIF_TIER").unwrap_or_else(|_| "quick".into());
    let mut replay: Option<String> = None;
    let mut i = 1;
    while i < args.len() {
        match args[i].as_str() {
            "--tier" => {
                tier = args.get(i + 1).cloned().unwrap_or_else(|| usage());
                i += 2;
            }
            "--shape" => {
                // child mode of the C15 scaled-shape test
                let shape = args.get(i + 1).cloned().unwrap_or_else(|| usage());
                let n: usize = args.get(i + 3).and_then(|s| s.parse().ok()).unwrap_or_else(|| usage());
                drive::silence_panics();
                std::process::exit(props::c15::shape_child(&shape, n));
            }
            "--lifecycle-child" => {
                drive::silence_panics();
                std::process::exit(props::c17::lifecycle_child());
            }
            "--replay" => {
                replay = Some(args.get(i + 1).cloned().unwrap_or_else(|| usage()));
                i += 2;
            }
            _ => usage(),
        }
    }
    if tier != "quick" && tier != "thorough" {
        usage();
    }
    drive::silence_panics();
    let Some(entry) = props::REGISTRY.iter().find(|e| e.id == prop) else {
        eprintln!("unknown property {prop}");
        std::process::exit(2);
    };
    if let Some(path) = replay {
        let body = std::fs::read_to_string(&path).expect("read replay file");
        let v: serde_json::Value = serde_json::from_str(&body).expect("parse replay file");
        match (entry.replay)(&v["case"]) {
            Some(msg) => {
                println!("VIOLATION property={} replay={} :: {}", entry.id, path, msg);
                std::process::exit(1);
            }
            None => {
                println!("replay of {path}: property {} holds on this case", entry.id);
                std::process::exit(0);
            }
        }
    }
    let ctx = Ctx::new(entry.id, &tier);
    let code = (entry.run)(&ctx);
    std::process::exit(code);
}
