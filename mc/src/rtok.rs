//! R-tok: the WHATWG tokenizer driven by a real tree builder — html5ever 0.39 `Tokenizer`
//! feeding `TreeBuilder(RcDom)` through a recording `TokenSink` proxy (same recipe as the
//! repository's own feature-gated tests/harness/.../expected_tokens.rs).

use html5ever::TokenizerResult;
use html5ever::tendril::StrTendril;
use html5ever::tokenizer::{
    BufferQueue, TagKind, Token, TokenSink, TokenSinkResult, Tokenizer, TokenizerOpts,
};
use html5ever::tree_builder::{TreeBuilder, TreeBuilderOpts};
use markup5ever_rcdom::RcDom;
use serde::{Deserialize, Serialize};
use std::cell::RefCell;

#[derive(Clone, Debug, PartialEq, Eq, Hash, Serialize, Deserialize)]
pub enum Tok {
    Start { name: String, attrs: Vec<(String, String)>, sc: bool },
    End { name: String },
    Comment(String),
    Doctype { name: Option<String>, public: Option<String>, system: Option<String>, fq: Option<bool> },
    Text(String),
}

impl Tok {
    pub fn kind(&self) -> u8 {
        match self {
            Tok::Text(_) => 0b00001,
            Tok::Comment(_) => 0b00010,
            Tok::Start { .. } => 0b00100,
            Tok::End { .. } => 0b01000,
            Tok::Doctype { .. } => 0b10000,
        }
    }
}

pub fn push_text(tokens: &mut Vec<Tok>, s: &str) {
    if s.is_empty() {
        return;
    }
    if let Some(Tok::Text(last)) = tokens.last_mut() {
        last.push_str(s);
    } else {
        tokens.push(Tok::Text(s.to_string()));
    }
}

struct Proxy<'a, S> {
    inner: S,
    tokens: RefCell<&'a mut Vec<Tok>>,
}

impl<S: TokenSink> TokenSink for Proxy<'_, S> {
    type Handle = S::Handle;

    fn process_token(&self, token: Token, line: u64) -> TokenSinkResult<Self::Handle> {
        match token {
            Token::DoctypeToken(ref d) => self.tokens.borrow_mut().push(Tok::Doctype {
                name: d.name.as_ref().map(|s| s.to_string()),
                public: d.public_id.as_ref().map(|s| s.to_string()),
                system: d.system_id.as_ref().map(|s| s.to_string()),
                fq: Some(d.force_quirks),
            }),
            Token::TagToken(ref tag) => {
                let name = tag.name.to_string();
                self.tokens.borrow_mut().push(match tag.kind {
                    TagKind::StartTag => Tok::Start {
                        name,
                        attrs: tag
                            .attrs
                            .iter()
                            .map(|a| (a.name.local.to_string(), a.value.to_string()))
                            .collect(),
                        sc: tag.self_closing,
                    },
                    TagKind::EndTag => Tok::End { name },
                });
            }
            Token::CommentToken(ref s) => self.tokens.borrow_mut().push(Tok::Comment(s.to_string())),
            Token::CharacterTokens(ref s) => push_text(&mut self.tokens.borrow_mut(), s),
            Token::NullCharacterToken => push_text(&mut self.tokens.borrow_mut(), "\0"),
            _ => {}
        }
        self.inner.process_token(token, line)
    }

    fn end(&self) {
        self.inner.end();
    }

    fn adjusted_current_node_present_but_not_in_html_namespace(&self) -> bool {
        self.inner.adjusted_current_node_present_but_not_in_html_namespace()
    }
}

/// Token list the WHATWG tokenizer + tree builder produce for `input`.
pub fn whatwg_tokens(input: &str) -> Vec<Tok> {
    let mut tokens = Vec::new();
    let b = BufferQueue::default();
    b.push_back(StrTendril::from(input));
    {
        let t = Tokenizer::new(
            Proxy {
                inner: TreeBuilder::new(RcDom::default(), TreeBuilderOpts::default()),
                tokens: RefCell::new(&mut tokens),
            },
            // the BOM is handled by the decoding layer, not by the tokenizer proper
            TokenizerOpts { discard_bom: false, ..TokenizerOpts::default() },
        );
        while let TokenizerResult::Script(_) = t.feed(&b) {}
        t.end();
    }
    tokens
}

/// First-duplicate-wins attribute list (what the WHATWG tokenizer keeps).
pub fn dedup_attrs(attrs: Vec<(String, String)>) -> Vec<(String, String)> {
    let mut out: Vec<(String, String)> = Vec::with_capacity(attrs.len());
    for (n, v) in attrs {
        if !out.iter().any(|(m, _)| *m == n) {
            out.push((n, v));
        }
    }
    out
}
