//! Exploration context: parallel exhaustive enumeration, counters, violation reports with
//! replay files, known-finding handling and the evidence file.

use serde_json::{Value, json};
use std::collections::{BTreeMap, HashSet};
use std::hash::{Hash, Hasher};
use std::sync::Mutex;
use std::sync::atomic::{AtomicBool, AtomicU64, AtomicUsize, Ordering};
use std::time::Instant;

pub fn digest<T: Hash + ?Sized>(t: &T) -> u64 {
    // DefaultHasher::new() uses fixed keys: deterministic across runs and threads.
    let mut h = std::collections::hash_map::DefaultHasher::new();
    t.hash(&mut h);
    h.finish()
}

pub struct ShardedSet {
    shards: Vec<Mutex<HashSet<u64>>>,
}

impl ShardedSet {
    pub fn new() -> Self {
        ShardedSet {
            shards: (0..256).map(|_| Mutex::new(HashSet::new())).collect(),
        }
    }
    /// Distinct-count bookkeeping is capped (memory): beyond ~51 M entries per set further
    /// digests are not stored, so the reported count is then a lower bound (`counts_capped`).
    pub fn insert(&self, d: u64) -> bool {
        let mut sh = self.shards[(d >> 56) as usize].lock().unwrap();
        if sh.len() >= 200_000 {
            return sh.contains(&d);
        }
        sh.insert(d)
    }
    pub fn capped(&self) -> bool {
        self.shards.iter().any(|s| s.lock().unwrap().len() >= 200_000)
    }
    pub fn len(&self) -> u64 {
        self.shards
            .iter()
            .map(|s| s.lock().unwrap().len() as u64)
            .sum()
    }
}

pub struct Violation {
    pub msg: String,
    pub case: Value,
}

pub struct Ctx {
    pub prop: &'static str,
    pub tier: String,
    pub seed: u64,
    pub start: Instant,
    pub evaluations: AtomicU64,
    pub transitions: AtomicU64,
    pub validated: AtomicU64,
    pub states: ShardedSet,
    pub nontrivial: ShardedSet,
    pub outcomes: ShardedSet,
    pub violations: Mutex<Vec<Violation>>,
    pub violation_count: AtomicU64,
    pub known_hits: Mutex<BTreeMap<String, (u64, String)>>,
    pub samples: Mutex<Vec<Value>>,
    pub levels: Mutex<Vec<String>>,
    pub extra: Mutex<BTreeMap<String, Value>>,
    pub capped: AtomicBool,
    pub machinery_error: Mutex<Option<String>>,
    pub wall_cap_s: f64,
    pub known: Vec<KnownEntry>,
}

#[derive(Clone, Debug)]
pub struct KnownEntry {
    pub kind: String, // "finding" | "fixed"
    pub prop: String,
    pub sig: String,
    pub text: String,
}

pub fn load_known() -> Vec<KnownEntry> {
    let path = verif_root().join("known_findings.txt");
    let mut v = vec![];
    if let Ok(s) = std::fs::read_to_string(path) {
        for line in s.lines() {
            let line = line.trim();
            let (kind, rest) = if let Some(r) = line.strip_prefix("finding:") {
                ("finding", r)
            } else if let Some(r) = line.strip_prefix("fixed:") {
                ("fixed", r)
            } else {
                continue;
            };
            let mut prop = String::new();
            let mut sig = String::new();
            for tok in rest.split_whitespace() {
                if let Some(p) = tok.strip_prefix("property=") {
                    prop = p.to_string();
                }
                if let Some(p) = tok.strip_prefix("sig=") {
                    sig = p.to_string();
                }
            }
            v.push(KnownEntry {
                kind: kind.into(),
                prop,
                sig,
                text: rest.trim().to_string(),
            });
        }
    }
    v
}

pub fn verif_root() -> std::path::PathBuf {
    std::env::var("VERIF_ROOT")
        .map(std::path::PathBuf::from)
        .unwrap_or_else(|_| std::path::PathBuf::from("/verif"))
}

impl Ctx {
    pub fn new(prop: &'static str, tier: &str) -> Self {
        let seed = std::env::var("VERIF_SEED")
            .ok()
            .and_then(|s| s.parse().ok())
            .unwrap_or(0);
        let wall_cap_s = std::env::var("VERIF_WALL_CAP_S")
            .ok()
            .and_then(|s| s.parse().ok())
            .unwrap_or(if tier == "quick" { 240.0 } else { 6.0 * 3600.0 });
        Ctx {
            prop,
            tier: tier.to_string(),
            seed,
            start: Instant::now(),
            evaluations: AtomicU64::new(0),
            transitions: AtomicU64::new(0),
            validated: AtomicU64::new(0),
            states: ShardedSet::new(),
            nontrivial: ShardedSet::new(),
            outcomes: ShardedSet::new(),
            violations: Mutex::new(vec![]),
            violation_count: AtomicU64::new(0),
            known_hits: Mutex::new(BTreeMap::new()),
            samples: Mutex::new(vec![]),
            levels: Mutex::new(vec![]),
            extra: Mutex::new(BTreeMap::new()),
            capped: AtomicBool::new(false),
            machinery_error: Mutex::new(None),
            wall_cap_s,
            known: load_known(),
        }
    }

    pub fn quick(&self) -> bool {
        self.tier == "quick"
    }

    pub fn over_time(&self) -> bool {
        if self.start.elapsed().as_secs_f64() > self.wall_cap_s {
            self.capped.store(true, Ordering::Relaxed);
            true
        } else {
            false
        }
    }

    /// Count one execution with `calls` API calls.
    #[inline]
    pub fn exec(&self, calls: usize) {
        self.evaluations.fetch_add(1, Ordering::Relaxed);
        self.transitions.fetch_add(calls as u64, Ordering::Relaxed);
    }

    #[inline]
    pub fn validated(&self, n: u64) {
        self.validated.fetch_add(n, Ordering::Relaxed);
    }

    pub fn level_done(&self, name: &str) {
        self.levels.lock().unwrap().push(name.to_string());
        // seconds since the start at which each level completed (for tuning the tiers)
        let mut e = self.extra.lock().unwrap();
        let mut v = e.get("level_completed_at_s").and_then(|v| v.as_array().cloned()).unwrap_or_default();
        v.push(json!((self.start.elapsed().as_secs_f64() * 10.0).round() / 10.0));
        e.insert("level_completed_at_s".to_string(), Value::Array(v));
    }

    pub fn set_extra(&self, k: &str, v: Value) {
        self.extra.lock().unwrap().insert(k.to_string(), v);
    }

    pub fn add_extra_count(&self, k: &str, n: u64) {
        let mut e = self.extra.lock().unwrap();
        let cur = e.get(k).and_then(|v| v.as_u64()).unwrap_or(0);
        e.insert(k.to_string(), json!(cur + n));
    }

    pub fn sample(&self, v: Value) {
        let mut s = self.samples.lock().unwrap();
        if s.len() < 12 {
            s.push(v);
        }
    }

    /// Report a violation. `recheck` re-evaluates the same case from scratch and returns the
    /// violation message if it still fails; it is called twice. A case that does not fail
    /// identically on replay is a machinery error (non-determinism), not a verdict.
    pub fn violation(&self, msg: String, case: Value, recheck: &dyn Fn() -> Option<String>) {
        self.violation_tagged("", msg, case, recheck)
    }

    /// For properties whose statement includes determinism (C10, C18): a case that fails
    /// differently — or not at all — on replay is itself a violation ("the outcome depends on
    /// something other than configuration and input"), not a machinery error. The harness has
    /// no clock, randomness or scheduling of its own, so replays can only differ because the
    /// implementation carries state between rewriters.
    pub fn violation_determinism(&self, msg: String, case: Value, recheck: &dyn Fn() -> Option<String>) {
        let r1 = recheck();
        let msg = match r1 {
            Some(m) if m == msg => msg,
            Some(m) => format!("{msg} [on replay: {m} — the outcome is not a function of limit, configuration and writes alone]"),
            None => format!("{msg} [not reproduced on replay — the outcome is not a function of limit, configuration and writes alone]"),
        };
        let n = self.violation_count.fetch_add(1, Ordering::SeqCst);
        if n < 25 {
            self.violations.lock().unwrap().push(Violation { msg, case });
        }
    }

    /// For verdicts that rest on a time measurement (C15's CPU-ratio rule, child time-outs): the
    /// case is re-measured; it is a violation only if it fails again (the numbers in the message
    /// may differ), otherwise it is recorded as inconclusive in the evidence and nothing is
    /// reported — a busy machine must never raise an alarm.
    pub fn violation_timing(&self, msg: String, case: Value, recheck: &dyn Fn() -> Option<String>) {
        if recheck().is_none() {
            let mut e = self.extra.lock().unwrap();
            let mut v = e.get("inconclusive_timing").and_then(|v| v.as_array().cloned()).unwrap_or_default();
            v.push(json!({"first_measurement": msg, "case": case}));
            e.insert("inconclusive_timing".to_string(), Value::Array(v));
            return;
        }
        let n = self.violation_count.fetch_add(1, Ordering::SeqCst);
        if n < 25 {
            self.violations.lock().unwrap().push(Violation { msg, case });
        }
    }

    fn violation_tagged(&self, tag: &str, msg: String, case: Value, recheck: &dyn Fn() -> Option<String>) {
        let r1 = recheck();
        let r2 = recheck();
        if r1.as_deref() != Some(msg.as_str()) || r2.as_deref() != Some(msg.as_str()) {
            let mut me = self.machinery_error.lock().unwrap();
            if me.is_none() {
                *me = Some(format!(
                    "non-reproducible violation: first={msg:?} replay1={r1:?} replay2={r2:?} case={case}"
                ));
            }
            return;
        }
        let n = self.violation_count.fetch_add(1, Ordering::SeqCst);
        if n < 25 {
            let msg = if tag.is_empty() { msg } else { format!("[{tag}] {msg}") };
            self.violations.lock().unwrap().push(Violation { msg, case });
        }
    }

    /// A failure that matches the machine-checkable signature `sig`. If known_findings.txt
    /// lists `finding: property=<id> sig=<sig>`, it is counted as a known finding; otherwise
    /// (not listed, or listed as `fixed:`) it is a violation.
    pub fn known_or_violation(
        &self,
        sig: &str,
        msg: String,
        case: Value,
        recheck: &dyn Fn() -> Option<String>,
    ) {
        let listed = self
            .known
            .iter()
            .any(|k| k.kind == "finding" && k.prop == self.prop && k.sig == sig);
        if listed {
            let mut kh = self.known_hits.lock().unwrap();
            let e = kh.entry(sig.to_string()).or_insert((0, String::new()));
            e.0 += 1;
            if e.1.is_empty() {
                e.1 = format!("{msg} case={case}");
            }
        } else {
            self.violation_tagged(sig, msg, case, recheck);
        }
    }

    /// Write evidence, print the verdict lines, return the process exit code.
    pub fn finish(&self, level: &str, rule: &str, assumptions: &[&str], exhaustive_claim: bool) -> i32 {
        let wall = self.start.elapsed().as_secs_f64();
        let root = verif_root();
        let viol = self.violations.lock().unwrap();
        let nviol = self.violation_count.load(Ordering::SeqCst);
        let capped = self.capped.load(Ordering::Relaxed);
        let mut coverage = serde_json::Map::new();
        let evals = self.evaluations.load(Ordering::Relaxed);
        coverage.insert("evaluations".into(), json!(evals));
        coverage.insert("states".into(), json!(self.states.len().max(1)));
        coverage.insert(
            "transitions".into(),
            json!(self.transitions.load(Ordering::Relaxed).max(1)),
        );
        coverage.insert(
            "traces_validated_against_impl".into(),
            json!(self.validated.load(Ordering::Relaxed)),
        );
        coverage.insert("distinct_nontrivial".into(), json!(self.nontrivial.len()));
        coverage.insert("distinct_outcomes".into(), json!(self.outcomes.len()));
        coverage.insert("rule".into(), json!(rule));
        let mut samples = self.samples.lock().unwrap().clone();
        if samples.is_empty() {
            samples.push(json!("no sample recorded"));
        }
        coverage.insert("samples".into(), Value::Array(samples));
        coverage.insert("exhaustive".into(), json!(exhaustive_claim && !capped));
        if self.states.capped() || self.nontrivial.capped() || self.outcomes.capped() {
            coverage.insert(
                "counts_capped".into(),
                json!("distinct-count sets are capped at 51.2 M digests each: states / distinct_nontrivial / distinct_outcomes are lower bounds in this run (evaluations and transitions are exact)"),
            );
        }
        coverage.insert(
            "levels_completed".into(),
            json!(self.levels.lock().unwrap().clone()),
        );
        if capped {
            coverage.insert(
                "cap_hit".into(),
                json!(format!("wall-clock cap {} s reached; levels_completed lists what was fully covered", self.wall_cap_s)),
            );
        }
        let kh = self.known_hits.lock().unwrap();
        coverage.insert(
            "known_finding_hits".into(),
            json!(kh.iter().map(|(k, v)| (k.clone(), v.0)).collect::<BTreeMap<_, _>>()),
        );
        for (k, v) in self.extra.lock().unwrap().iter() {
            coverage.insert(k.clone(), v.clone());
        }
        let ev = json!({
            "property_id": self.prop,
            "tier": self.tier,
            "seed": self.seed,
            "level": level,
            "coverage": Value::Object(coverage),
            "assumptions": assumptions,
            "wall_s": wall,
            "violations": nviol,
        });
        let evdir = root.join("evidence");
        let _ = std::fs::create_dir_all(&evdir);
        let evpath = evdir.join(format!("{}.json", self.prop));
        std::fs::write(&evpath, serde_json::to_string_pretty(&ev).unwrap()).expect("write evidence");

        if let Some(me) = self.machinery_error.lock().unwrap().as_ref() {
            println!("MACHINERY-ERROR property={} {}", self.prop, me);
            return 2;
        }
        for k in self.known.iter().filter(|k| k.kind == "finding" && k.prop == self.prop) {
            let hits = kh.get(&k.sig).map(|v| v.0).unwrap_or(0);
            println!(
                "KNOWN-FINDING: property={} sig={} hits={} {}",
                self.prop,
                k.sig,
                hits,
                kh.get(&k.sig).map(|v| v.1.as_str()).unwrap_or("(not reached by this tier)")
            );
        }
        println!(
            "property={} tier={} evaluations={} states={} transitions={} nontrivial={} outcomes={} wall={:.1}s levels={:?}{}",
            self.prop,
            self.tier,
            evals,
            self.states.len(),
            self.transitions.load(Ordering::Relaxed),
            self.nontrivial.len(),
            self.outcomes.len(),
            wall,
            self.levels.lock().unwrap(),
            if capped { " CAPPED" } else { "" }
        );
        if nviol > 0 {
            let dir = root.join("replays").join(self.prop);
            let _ = std::fs::create_dir_all(&dir);
            for (i, v) in viol.iter().enumerate() {
                let path = dir.join(format!("{i}.json"));
                let body = json!({"property": self.prop, "message": v.msg, "case": v.case});
                let _ = std::fs::write(&path, serde_json::to_string_pretty(&body).unwrap());
                println!(
                    "VIOLATION property={} replay={} :: {}",
                    self.prop,
                    path.display(),
                    v.msg.chars().take(600).collect::<String>()
                );
            }
            if nviol as usize > viol.len() {
                println!("({} further violations not written)", nviol as usize - viol.len());
            }
            return 1;
        }
        0
    }
}

/// Run `f(i)` for every i in 0..n on all cores; work is handed out in blocks.
pub fn par_for<F: Fn(usize) + Sync>(n: usize, block: usize, f: F) {
    let next = AtomicUsize::new(0);
    let threads = std::thread::available_parallelism()
        .map(|n| n.get())
        .unwrap_or(8)
        .min(std::env::var("VERIF_THREADS").ok().and_then(|s| s.parse().ok()).unwrap_or(64));
    std::thread::scope(|s| {
        for _ in 0..threads {
            s.spawn(|| {
                loop {
                    let start = next.fetch_add(block, Ordering::Relaxed);
                    if start >= n {
                        break;
                    }
                    for i in start..(start + block).min(n) {
                        f(i);
                    }
                }
            });
        }
    });
}

pub fn hex(b: &[u8]) -> String {
    b.iter().map(|x| format!("{x:02x}")).collect()
}

pub fn unhex(s: &str) -> Vec<u8> {
    (0..s.len() / 2)
        .map(|i| u8::from_str_radix(&s[2 * i..2 * i + 2], 16).unwrap())
        .collect()
}

pub fn lossy(b: &[u8]) -> String {
    String::from_utf8_lossy(b).into_owned()
}
