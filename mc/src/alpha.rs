//! Alphabets and enumerators (DESIGN §1.2).

/// F: tag-soup fragments — every tokenizer construct and its truncations, every text-mode
/// element, the ambiguity-guard tags, case variants. No `&`, NUL or CR (text compares exactly
/// with html5ever); no svg/math (outside the C03 tag-soup domain).
pub const F: &[&str] = &[
    "<a>", "</a>", "x", " ", "<!--", "-->", "<script>", "</script>", "<title>", "</title>",
    "<a ", "<a b=c", "<a b=\"c", "<a b='c", "<a b=>", ">", "<", "</", "<!", "\"", "'", "=",
    "/", "-", // 24-fragment core ends here
    "<A B=C/>", "<br>", "<br/>", "</>", "<!-->", "<!--->", "--!>", "<?x>", "<!DOCTYPE html>",
    "<!doctype ", "<!DOCTYPE a PUBLIC \"x\" 'y'>", "<![CDATA[", "]]>", "]", "</SCRIPT ",
    "<!--<script", "</scri", "<style>", "</style>", "<textarea>", "</textarea>", "<xmp>",
    "</xmp>", "<plaintext>", "<noscript>", "<iframe>", "<noembed>", "<noframes>", "<select>",
    "</select>", "<option>", "<template>", "</template>", "<frameset>", "<table>", "<td>",
    "<input>", "<keygen>", "é", "<a/b c=d e>", "<a b=c>", "\u{FEFF}", "€", "</a ", "<title/>", "<script/>", "</a/",
];

pub const F_CORE: usize = 24;

/// B16: byte-level alphabet. 0xC3 is a UTF-8 lead byte without trail.
pub const B16: &[u8] = &[
    b'<', b'>', b'/', b'!', b'-', b'=', b'"', b'\'', b' ', b'a', b's', b']', b'[', b'?', 0, 0xC3,
];

/// Number of sequences of length 0..=max over an alphabet of size k.
pub fn count_upto(k: usize, max: usize) -> usize {
    let mut total = 0usize;
    let mut p = 1usize;
    for _ in 0..=max {
        total += p;
        p *= k;
    }
    total
}

/// Decode index `i` (0-based over all sequences of length 0..=max, shortest first) into symbols.
pub fn seq_at(mut i: usize, k: usize, out: &mut Vec<usize>) {
    out.clear();
    let mut len = 0usize;
    let mut p = 1usize;
    while i >= p {
        i -= p;
        p *= k;
        len += 1;
    }
    for _ in 0..len {
        out.push(i % k);
        i /= k;
    }
}

pub fn render_frags(frags: &[&str], idx: &[usize], out: &mut Vec<u8>) {
    out.clear();
    for &i in idx {
        out.extend_from_slice(frags[i].as_bytes());
    }
}

pub fn render_bytes(alpha: &[u8], idx: &[usize], out: &mut Vec<u8>) {
    out.clear();
    for &i in idx {
        out.push(alpha[i]);
    }
}

/// Σ: characters for API strings (C08/C13/C16).
pub const SIGMA: &[&str] = &[
    "<", ">", "&", "\"", "'", "-", "!", "/", "=", " ", "\t", "\n", "\0", "a", "A", "é", "€", "😀",
    "\u{FFFD}", "¥", "ア",
];

/// All single-cut schedules for an input of length n: cut positions 1..n-1.
pub fn single_cuts(n: usize) -> impl Iterator<Item = usize> {
    1..n.max(1)
}

/// Schedule enumeration. A schedule is a list of cut positions plus an optional position
/// (index into the chunk list) at which an empty write is inserted.
#[derive(Clone, Debug, PartialEq, Eq, Hash, serde::Serialize, serde::Deserialize)]
pub struct Sched {
    pub cuts: Vec<usize>,
    /// Insert an empty write before chunk #k (k == chunk count → after the last chunk).
    pub empty_at: Option<usize>,
}

impl Sched {
    pub fn whole() -> Self {
        Sched {
            cuts: vec![],
            empty_at: None,
        }
    }
    pub fn chunks<'a>(&self, input: &'a [u8]) -> Vec<&'a [u8]> {
        let mut v = crate::drive::split(input, &self.cuts);
        if let Some(k) = self.empty_at {
            v.insert(k.min(v.len()), &input[0..0]);
        }
        v
    }
    pub fn label(&self) -> String {
        format!("cuts={:?} empty_at={:?}", self.cuts, self.empty_at)
    }
}

#[derive(Clone, Copy, Debug)]
pub struct Levels {
    pub l1: bool,
    /// all 2-cut schedules for inputs up to this length (0 = none)
    pub l2_max_len: usize,
    pub bytewise: bool,
    pub empties: bool,
}

/// Enumerate schedules for an input of n bytes, deviation-first. L0 (no cut) is not included.
pub fn schedules(n: usize, lv: Levels, out: &mut Vec<Sched>) {
    out.clear();
    if n >= 2 && lv.l1 {
        for c in 1..n {
            out.push(Sched {
                cuts: vec![c],
                empty_at: None,
            });
        }
    }
    if n >= 3 && n <= lv.l2_max_len {
        for a in 1..n {
            for b in a + 1..n {
                out.push(Sched {
                    cuts: vec![a, b],
                    empty_at: None,
                });
            }
        }
    }
    if n >= 3 && lv.bytewise {
        out.push(Sched {
            cuts: (1..n).collect(),
            empty_at: None,
        });
    }
    if lv.empties {
        // empty write before, (between for each single cut) and after
        out.push(Sched {
            cuts: vec![],
            empty_at: Some(0),
        });
        out.push(Sched {
            cuts: vec![],
            empty_at: Some(1),
        });
        if n >= 2 {
            for c in 1..n {
                out.push(Sched {
                    cuts: vec![c],
                    empty_at: Some(1),
                });
            }
        }
    }
}
