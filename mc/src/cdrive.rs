//! Mirror of `drive.rs` through the exported C entry points (`extern "C"` functions of the
//! `lolhtml` crate, called from Rust: same symbols, same ABI as a C caller). Produces the same
//! `RunResult` so that a C run can be compared field by field with the Rust run.

use crate::drive::*;
use libc::{c_char, c_int, c_void, size_t};
use lol_html::MemorySettings;
use lol_html::html_content::{Comment, Doctype, DocumentEnd, Element, EndTag, TextChunk};
use lolhtml::comment::*;
use lolhtml::doctype::*;
use lolhtml::document_end::*;
use lolhtml::element::*;
use lolhtml::errors::lol_html_take_last_error;
use lolhtml::rewriter::*;
use lolhtml::rewriter_builder::*;
use lolhtml::selector::*;
use lolhtml::string::lol_html_str_free;
use lolhtml::text_chunk::*;
use lolhtml::{RewriterDirective, Str};
use std::sync::{Arc, Mutex};

/// Same layout as the C `lol_html_str_t`.
#[repr(C)]
struct RawStr {
    data: *const c_char,
    len: size_t,
}

/// Copy a returned `lol_html_str_t` into a String (None if data == NULL) and free it.
unsafe fn take_str(s: Str) -> Option<String> {
    let raw: &RawStr = unsafe { &*(&s as *const Str as *const RawStr) };
    let out = if raw.data.is_null() {
        None
    } else {
        let bytes = unsafe { std::slice::from_raw_parts(raw.data as *const u8, raw.len) };
        Some(String::from_utf8_lossy(bytes).into_owned())
    };
    unsafe { lol_html_str_free(s) };
    out
}

pub fn take_last_error() -> Option<String> {
    unsafe { take_str(lol_html_take_last_error()) }
}

struct HCtx {
    /// use the `*_streaming_*` entry points for content insertion
    streaming: bool,
    reg: u16,
    ops: Vec<Op>,
    end_ops: Option<Vec<Op>>,
    log: bool,
    last_only: bool,
    fail_at: Option<usize>,
    shared: SharedRef,
}

fn push(shared: &SharedRef, ev: Ev) {
    shared.lock().unwrap().events.push(ev);
}

fn tick(shared: &SharedRef, fail_at: Option<usize>) -> bool {
    let mut s = shared.lock().unwrap();
    s.handler_calls += 1;
    Some(s.handler_calls) == fail_at
}

fn p(s: &str) -> (*const c_char, size_t) {
    (s.as_ptr() as *const c_char, s.len())
}

// streaming handlers: the same pieces as `drive::streamer` (an empty piece, the first half as a
// string, the rest as UTF-8 chunks split after its first byte)
struct StreamPayload {
    s: String,
    html: bool,
}

unsafe extern "C" fn stream_write(sink: &mut lolhtml::streaming::CStreamingHandlerSink<'_>, ud: *mut c_void) -> c_int {
    use lolhtml::streaming::{lol_html_streaming_sink_write_str, lol_html_streaming_sink_write_utf8_chunk};
    let pl = unsafe { &*(ud as *const StreamPayload) };
    let s = &pl.s;
    let mid = (0..=s.len() / 2).rev().find(|i| s.is_char_boundary(*i)).unwrap_or(0);
    unsafe {
        let mut rc = lol_html_streaming_sink_write_str(sink, s.as_ptr() as *const c_char, 0, pl.html);
        rc |= lol_html_streaming_sink_write_str(sink, s.as_ptr() as *const c_char, mid, pl.html);
        let rest = &s.as_bytes()[mid..];
        if rest.len() >= 2 {
            rc |= lol_html_streaming_sink_write_utf8_chunk(sink, rest.as_ptr() as *const c_char, 1, pl.html);
            rc |= lol_html_streaming_sink_write_utf8_chunk(sink, rest.as_ptr() as *const c_char, 0, pl.html);
            rc |= lol_html_streaming_sink_write_utf8_chunk(sink, rest[1..].as_ptr() as *const c_char, rest.len() - 1, pl.html);
        } else {
            rc |= lol_html_streaming_sink_write_utf8_chunk(sink, rest.as_ptr() as *const c_char, rest.len(), pl.html);
        }
        rc
    }
}

unsafe extern "C" fn stream_drop(ud: *mut c_void) {
    drop(unsafe { Box::from_raw(ud as *mut StreamPayload) });
}

/// Calls `f` with a stack-allocated streaming handler for `s` (the callee copies the struct).
unsafe fn with_stream<R>(s: &str, html: bool, f: impl FnOnce(*mut lolhtml::CStreamingHandler) -> R) -> R {
    let mut h = lolhtml::CStreamingHandler {
        user_data: Box::into_raw(Box::new(StreamPayload { s: s.to_string(), html })) as *mut c_void,
        write_all_callback: Some(stream_write),
        drop_callback: Some(stream_drop),
        reserved: std::ptr::null_mut(),
    };
    let r = f(&mut h);
    std::mem::forget(h);
    r
}

unsafe extern "C" fn end_tag_handler(t: *mut EndTag, ud: *mut c_void) -> RewriterDirective {
    let ctx = unsafe { &*(ud as *const HCtx) };
    unsafe {
        if ctx.log {
            let loc = lol_html_end_tag_source_location_bytes(t);
            push(
                &ctx.shared,
                Ev::EndTag {
                    reg: ctx.reg,
                    name: take_str(lol_html_end_tag_name_get(t)).unwrap_or_default(),
                    name_pc: take_str(lol_html_end_tag_name_get_preserve_case(t)).unwrap_or_default(),
                    loc: (loc.start, loc.end),
                },
            );
        }
        if tick(&ctx.shared, ctx.fail_at) {
            return RewriterDirective::Stop;
        }
        for op in ctx.end_ops.as_deref().unwrap_or(&[]) {
            match op {
                Op::Before(s, h) if ctx.streaming => {
                    with_stream(s, *h, |w| lol_html_end_tag_streaming_before(t, w));
                }
                Op::After(s, h) if ctx.streaming => {
                    with_stream(s, *h, |w| lol_html_end_tag_streaming_after(t, w));
                }
                Op::Replace(s, h) if ctx.streaming => {
                    with_stream(s, *h, |w| lol_html_end_tag_streaming_replace(t, w));
                }
                Op::Before(s, h) => {
                    let (d, l) = p(s);
                    lol_html_end_tag_before(t, d, l, *h);
                }
                Op::After(s, h) => {
                    let (d, l) = p(s);
                    lol_html_end_tag_after(t, d, l, *h);
                }
                Op::Replace(s, h) => {
                    let (d, l) = p(s);
                    lol_html_end_tag_replace(t, d, l, *h);
                }
                Op::Remove => lol_html_end_tag_remove(t),
                Op::SetText(s) | Op::SetTagName(s) => {
                    let (d, l) = p(s);
                    lol_html_end_tag_name_set(t, d, l);
                }
                _ => {}
            }
        }
    }
    RewriterDirective::Continue
}

unsafe extern "C" fn element_handler(el: *mut Element, ud: *mut c_void) -> RewriterDirective {
    let ctx = unsafe { &*(ud as *const HCtx) };
    unsafe {
        if ctx.log {
            let mut attrs = vec![];
            let it = lol_html_attributes_iterator_get(el);
            loop {
                let a = lol_html_attributes_iterator_next(it);
                if a.is_null() {
                    break;
                }
                attrs.push(AttrObs {
                    name: take_str(lol_html_attribute_name_get(a)).unwrap_or_default(),
                    name_pc: take_str(lol_html_attribute_name_get_preserve_case(a)).unwrap_or_default(),
                    value: take_str(lol_html_attribute_value_get(a)).unwrap_or_default(),
                    nloc: None,
                    vloc: None,
                });
            }
            lol_html_attributes_iterator_free(it);
            let loc = lol_html_element_source_location_bytes(el);
            let ns = std::ffi::CStr::from_ptr(lol_html_element_namespace_uri_get(el)).to_string_lossy().into_owned();
            push(
                &ctx.shared,
                Ev::El {
                    reg: ctx.reg,
                    name: take_str(lol_html_element_tag_name_get(el)).unwrap_or_default(),
                    name_pc: take_str(lol_html_element_tag_name_get_preserve_case(el)).unwrap_or_default(),
                    attrs,
                    ns,
                    self_closing: lol_html_element_is_self_closing(el),
                    can_have_content: lol_html_element_can_have_content(el),
                    removed: lol_html_element_is_removed(el),
                    loc: (loc.start, loc.end),
                },
            );
        }
        if tick(&ctx.shared, ctx.fail_at) {
            return RewriterDirective::Stop;
        }
        let mut reread = false;
        for (i, op) in ctx.ops.iter().enumerate() {
            macro_rules! content {
                ($f:ident, $s:expr, $h:expr) => {{
                    let (d, l) = p($s);
                    $f(el, d, l, *$h);
                }};
            }
            match op {
                Op::Before(s, h) if ctx.streaming => {
                    with_stream(s, *h, |w| lol_html_element_streaming_before(el, w));
                }
                Op::After(s, h) if ctx.streaming => {
                    with_stream(s, *h, |w| lol_html_element_streaming_after(el, w));
                }
                Op::Prepend(s, h) if ctx.streaming => {
                    with_stream(s, *h, |w| lol_html_element_streaming_prepend(el, w));
                }
                Op::Append(s, h) if ctx.streaming => {
                    with_stream(s, *h, |w| lol_html_element_streaming_append(el, w));
                }
                Op::Replace(s, h) if ctx.streaming => {
                    with_stream(s, *h, |w| lol_html_element_streaming_replace(el, w));
                }
                Op::SetInner(s, h) if ctx.streaming => {
                    with_stream(s, *h, |w| lol_html_element_streaming_set_inner_content(el, w));
                }
                Op::Before(s, h) => content!(lol_html_element_before, s, h),
                Op::After(s, h) => content!(lol_html_element_after, s, h),
                Op::Prepend(s, h) => content!(lol_html_element_prepend, s, h),
                Op::Append(s, h) => content!(lol_html_element_append, s, h),
                Op::Replace(s, h) => content!(lol_html_element_replace, s, h),
                Op::SetInner(s, h) => content!(lol_html_element_set_inner_content, s, h),
                Op::Remove => lol_html_element_remove(el),
                Op::RemoveKeepContent => lol_html_element_remove_and_keep_content(el),
                Op::SetAttr(n, v) => {
                    let (nd, nl) = p(n);
                    let (vd, vl) = p(v);
                    let rc = lol_html_element_set_attribute(el, nd, nl, vd, vl);
                    if rc != 0 {
                        let _ = take_last_error();
                    }
                    push(&ctx.shared, Ev::OpRes { reg: ctx.reg, op: i as u16, ok: rc == 0 });
                    reread = true;
                }
                Op::RemoveAttr(n) => {
                    let (nd, nl) = p(n);
                    lol_html_element_remove_attribute(el, nd, nl);
                    reread = true;
                }
                Op::SetTagName(n) => {
                    let (nd, nl) = p(n);
                    let rc = lol_html_element_tag_name_set(el, nd, nl);
                    if rc != 0 {
                        let _ = take_last_error();
                    }
                    push(&ctx.shared, Ev::OpRes { reg: ctx.reg, op: i as u16, ok: rc == 0 });
                    reread = true;
                }
                Op::GetAttr(n) => {
                    let (nd, nl) = p(n);
                    let has = lol_html_element_has_attribute(el, nd, nl) == 1;
                    let v = take_str(lol_html_element_get_attribute(el, nd, nl));
                    push(&ctx.shared, Ev::OpRes { reg: ctx.reg, op: i as u16, ok: has });
                    push(&ctx.shared, Ev::ReRead { reg: ctx.reg, name: format!("get:{n}"), attrs: v.into_iter().map(|v| (n.clone(), v)).collect() });
                }
                _ => {}
            }
        }
        if reread {
            let mut attrs = vec![];
            let it = lol_html_attributes_iterator_get(el);
            loop {
                let a = lol_html_attributes_iterator_next(it);
                if a.is_null() {
                    break;
                }
                attrs.push((take_str(lol_html_attribute_name_get(a)).unwrap_or_default(), take_str(lol_html_attribute_value_get(a)).unwrap_or_default()));
            }
            lol_html_attributes_iterator_free(it);
            push(&ctx.shared, Ev::ReRead { reg: ctx.reg, name: take_str(lol_html_element_tag_name_get(el)).unwrap_or_default(), attrs });
        }
        if ctx.end_ops.is_some() {
            let rc = lol_html_element_add_end_tag_handler(el, end_tag_handler, ud);
            if rc != 0 {
                let _ = take_last_error();
                push(&ctx.shared, Ev::OpRes { reg: ctx.reg, op: u16::MAX, ok: false });
            }
        }
    }
    RewriterDirective::Continue
}

unsafe extern "C" fn comment_handler(c: *mut Comment, ud: *mut c_void) -> RewriterDirective {
    let ctx = unsafe { &*(ud as *const HCtx) };
    unsafe {
        if ctx.log {
            let loc = lol_html_comment_source_location_bytes(c);
            push(&ctx.shared, Ev::Comment { reg: ctx.reg, text: take_str(lol_html_comment_text_get(c)).unwrap_or_default(), loc: (loc.start, loc.end) });
        }
        if tick(&ctx.shared, ctx.fail_at) {
            return RewriterDirective::Stop;
        }
        for (i, op) in ctx.ops.iter().enumerate() {
            match op {
                Op::Before(s, h) => {
                    let (d, l) = p(s);
                    lol_html_comment_before(c, d, l, *h);
                }
                Op::After(s, h) => {
                    let (d, l) = p(s);
                    lol_html_comment_after(c, d, l, *h);
                }
                Op::Replace(s, h) => {
                    let (d, l) = p(s);
                    lol_html_comment_replace(c, d, l, *h);
                }
                Op::Remove => lol_html_comment_remove(c),
                Op::SetText(s) => {
                    let (d, l) = p(s);
                    let rc = lol_html_comment_text_set(c, d, l);
                    if rc != 0 {
                        let _ = take_last_error();
                    }
                    push(&ctx.shared, Ev::OpRes { reg: ctx.reg, op: i as u16, ok: rc == 0 });
                }
                _ => {}
            }
        }
    }
    RewriterDirective::Continue
}

/// Same layout as the C `lol_html_text_chunk_content_t`.
#[repr(C)]
struct RawContent {
    data: *const c_char,
    len: size_t,
}

unsafe extern "C" fn text_handler(t: *mut TextChunk, ud: *mut c_void) -> RewriterDirective {
    let ctx = unsafe { &*(ud as *const HCtx) };
    unsafe {
        let last = lol_html_text_chunk_is_last_in_text_node(t);
        if ctx.log {
            let content = lol_html_text_chunk_content_get(t);
            let raw: &RawContent = &*(&content as *const _ as *const RawContent);
            let text = String::from_utf8_lossy(std::slice::from_raw_parts(raw.data as *const u8, raw.len)).into_owned();
            let loc = lol_html_text_chunk_source_location_bytes(t);
            // the text type is not exposed by the C API; taken from the Rust object for the log
            push(&ctx.shared, Ev::Text { reg: ctx.reg, text, ty: text_type_code((*t).text_type()), last, loc: (loc.start, loc.end) });
        }
        if tick(&ctx.shared, ctx.fail_at) {
            return RewriterDirective::Stop;
        }
        if !ctx.last_only || last {
            for op in &ctx.ops {
                match op {
                    Op::Before(s, h) if ctx.streaming => {
                        with_stream(s, *h, |w| lol_html_text_chunk_streaming_before(t, w));
                    }
                    Op::After(s, h) if ctx.streaming => {
                        with_stream(s, *h, |w| lol_html_text_chunk_streaming_after(t, w));
                    }
                    Op::Replace(s, h) if ctx.streaming => {
                        with_stream(s, *h, |w| lol_html_text_chunk_streaming_replace(t, w));
                    }
                    Op::Before(s, h) => {
                        let (d, l) = p(s);
                        lol_html_text_chunk_before(t, d, l, *h);
                    }
                    Op::After(s, h) => {
                        let (d, l) = p(s);
                        lol_html_text_chunk_after(t, d, l, *h);
                    }
                    Op::Replace(s, h) => {
                        let (d, l) = p(s);
                        lol_html_text_chunk_replace(t, d, l, *h);
                    }
                    Op::Remove => lol_html_text_chunk_remove(t),
                    _ => {}
                }
            }
        }
    }
    RewriterDirective::Continue
}

unsafe extern "C" fn doctype_handler(d: *mut Doctype, ud: *mut c_void) -> RewriterDirective {
    let ctx = unsafe { &*(ud as *const HCtx) };
    unsafe {
        if ctx.log {
            let loc = lol_html_doctype_source_location_bytes(d);
            push(
                &ctx.shared,
                Ev::Doctype {
                    reg: ctx.reg,
                    name: take_str(lol_html_doctype_name_get(d)),
                    public: take_str(lol_html_doctype_public_id_get(d)),
                    system: take_str(lol_html_doctype_system_id_get(d)),
                    loc: (loc.start, loc.end),
                },
            );
        }
        if tick(&ctx.shared, ctx.fail_at) {
            return RewriterDirective::Stop;
        }
        if ctx.ops.iter().any(|o| matches!(o, Op::Remove)) {
            lol_html_doctype_remove(d);
        }
    }
    RewriterDirective::Continue
}

unsafe extern "C" fn doc_end_handler(e: *mut DocumentEnd, ud: *mut c_void) -> RewriterDirective {
    let ctx = unsafe { &*(ud as *const HCtx) };
    push(&ctx.shared, Ev::DocEnd { reg: ctx.reg });
    if tick(&ctx.shared, ctx.fail_at) {
        return RewriterDirective::Stop;
    }
    for op in &ctx.ops {
        if let Op::Append(s, h) = op {
            let (d, l) = p(s);
            unsafe { lol_html_doc_end_append(e, d, l, *h) };
        }
    }
    RewriterDirective::Continue
}

unsafe extern "C" fn sink(chunk: *const c_char, len: size_t, ud: *mut c_void) {
    let shared = unsafe { &*(ud as *const Mutex<Shared>) };
    let bytes = unsafe { std::slice::from_raw_parts(chunk as *const u8, len) };
    let mut s = shared.lock().unwrap();
    s.out.extend_from_slice(bytes);
    s.sink.push(SinkEv::Chunk(bytes.to_vec()));
}

/// When the builder / selectors are freed relative to the rewriter (all orders the header allows).
#[derive(Clone, Copy, Debug, PartialEq, Eq, Hash, serde::Serialize, serde::Deserialize)]
pub enum FreeOrder {
    /// builder freed right after build, selectors after the builder, rewriter last
    BuilderEarly,
    /// rewriter freed first, then builder, then selectors
    RewriterFirst,
    /// builder and selectors freed after end() but before rewriter free
    AfterEnd,
}

pub struct CRun {
    pub rr: RunResult,
    /// last-error string observed after each failing call
    pub errors: Vec<Option<String>>,
    /// a second take_last_error directly after the first must return NULL
    pub error_cleared: bool,
    pub build_failed: Option<String>,
}

/// Which features of a Cfg the C API can express.
pub fn expressible(cfg: &Cfg) -> bool {
    !cfg.graceful_handler
        && cfg.bail_out_handlers == 0
        && !cfg.adjust_charset
        && cfg.handlers.iter().all(|h| h.ops.iter().all(|o| !matches!(o, Op::StBefore(..) | Op::StAfter(..) | Op::StReplace(..) | Op::StRemove | Op::StSetName(..))) && !(h.kind == HKind::DocText && h.ops.iter().any(|o| matches!(o, Op::SetText(_)))) && !(h.kind == HKind::Text && h.ops.iter().any(|o| matches!(o, Op::SetText(_)))))
}

pub fn run_c(cfg: &Cfg, chunks: &[&[u8]], do_end: bool, order: FreeOrder) -> CRun {
    let shared: SharedRef = Arc::new(Mutex::new(Shared::default()));
    let mut rr = RunResult::default();
    let mut errors = vec![];
    let mut error_cleared = true;
    let snapshot = |rr: &mut RunResult, shared: &SharedRef| {
        let s = shared.lock().unwrap();
        rr.out_len_after.push(s.out.len());
        rr.ev_len_after.push(s.events.len());
        rr.sink_len_after.push(s.sink.len());
    };
    unsafe {
        let _ = take_last_error();
        let builder = lol_html_rewriter_builder_new();
        let mut ctxs: Vec<Box<HCtx>> = vec![];
        let mut selectors = vec![];
        for (idx, h) in cfg.handlers.iter().enumerate() {
            let ctx = Box::new(HCtx { streaming: h.streaming, reg: idx as u16, ops: h.ops.clone(), end_ops: h.end_tag_ops.clone(), log: h.log, last_only: h.last_only, fail_at: cfg.fail_at, shared: shared.clone() });
            let ud = &*ctx as *const HCtx as *mut c_void;
            ctxs.push(ctx);
            let null = std::ptr::null_mut();
            match h.kind {
                HKind::Element | HKind::Text | HKind::Comments => {
                    let (d, l) = p(&h.sel);
                    let sel = lol_html_selector_parse(d, l);
                    assert!(!sel.is_null(), "selector {:?} rejected by the C API", h.sel);
                    selectors.push(sel);
                    let rc = match h.kind {
                        HKind::Element => lol_html_rewriter_builder_add_element_content_handlers(builder, sel, Some(element_handler), ud, None, null, None, null),
                        HKind::Comments => lol_html_rewriter_builder_add_element_content_handlers(builder, sel, None, null, Some(comment_handler), ud, None, null),
                        _ => lol_html_rewriter_builder_add_element_content_handlers(builder, sel, None, null, None, null, Some(text_handler), ud),
                    };
                    assert_eq!(rc, 0);
                }
                HKind::DocDoctype => lol_html_rewriter_builder_add_document_content_handlers(builder, Some(doctype_handler), ud, None, null, None, null, None, null),
                HKind::DocComments => lol_html_rewriter_builder_add_document_content_handlers(builder, None, null, Some(comment_handler), ud, None, null, None, null),
                HKind::DocText => lol_html_rewriter_builder_add_document_content_handlers(builder, None, null, None, null, Some(text_handler), ud, None, null),
                HKind::DocEnd => lol_html_rewriter_builder_add_document_content_handlers(builder, None, null, None, null, None, null, Some(doc_end_handler), ud),
            }
        }
        let mut ms = MemorySettings::new().with_graceful_bail_out_on_memory_limit_exceeded(cfg.graceful_mem);
        if let Some((max, pre)) = cfg.mem {
            ms = ms.with_max_allowed_memory_usage(max).with_preallocated_parsing_buffer_size(pre);
        }
        let (ed, el) = p(&cfg.encoding);
        let sink_ud = Arc::as_ptr(&shared) as *mut c_void;
        // the Rust sink records set_encoding; the C sink has no such callback: mirror the initial one
        shared.lock().unwrap().sink.push(SinkEv::SetEncoding(encoding_rs::Encoding::for_label(cfg.encoding.as_bytes()).map(|e| e.name().to_string()).unwrap_or_default()));
        let rewriter = if cfg.esi {
            unstable_lol_html_rewriter_build_with_esi_tags(builder, ed, el, ms, sink, sink_ud, cfg.strict)
        } else {
            lol_html_rewriter_build(builder, ed, el, ms, sink, sink_ud, cfg.strict)
        };
        if rewriter.is_null() {
            let e = take_last_error();
            lol_html_rewriter_builder_free(builder);
            for s in selectors {
                lol_html_selector_free(s);
            }
            return CRun { rr, errors, error_cleared, build_failed: Some(e.unwrap_or_default()) };
        }
        let mut builder_alive = true;
        if order == FreeOrder::BuilderEarly {
            lol_html_rewriter_builder_free(builder);
            builder_alive = false;
            for s in selectors.drain(..) {
                lol_html_selector_free(s);
            }
        }
        let mut failed = false;
        for c in chunks {
            let rc: c_int = lol_html_rewriter_write(rewriter, c.as_ptr() as *const c_char, c.len());
            snapshot(&mut rr, &shared);
            if rc == 0 {
                rr.results.push(CallRes::Ok);
            } else {
                let e = take_last_error();
                if take_last_error().is_some() {
                    error_cleared = false;
                }
                rr.results.push(CallRes::Err(0, e.clone().unwrap_or_default()));
                errors.push(e);
                failed = true;
                break;
            }
        }
        if !failed && do_end {
            let rc = lol_html_rewriter_end(rewriter);
            snapshot(&mut rr, &shared);
            if rc == 0 {
                rr.results.push(CallRes::Ok);
            } else {
                let e = take_last_error();
                if take_last_error().is_some() {
                    error_cleared = false;
                }
                rr.results.push(CallRes::Err(0, e.clone().unwrap_or_default()));
                errors.push(e);
            }
        }
        match order {
            FreeOrder::RewriterFirst => {
                lol_html_rewriter_free(rewriter);
                if builder_alive {
                    lol_html_rewriter_builder_free(builder);
                }
                for s in selectors.drain(..) {
                    lol_html_selector_free(s);
                }
            }
            _ => {
                if builder_alive {
                    lol_html_rewriter_builder_free(builder);
                }
                for s in selectors.drain(..) {
                    lol_html_selector_free(s);
                }
                lol_html_rewriter_free(rewriter);
            }
        }
        drop(ctxs);
    }
    let s = shared.lock().unwrap();
    rr.sink = s.sink.clone();
    rr.out = s.out.clone();
    rr.events = s.events.clone();
    rr.handler_calls = s.handler_calls;
    CRun { rr, errors, error_cleared, build_failed: None }
}
