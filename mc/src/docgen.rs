//! D: abstract documents as event sequences, rendered to bytes by the generator (which
//! therefore knows every token's byte range, the intended tree and attribute lists without
//! any tokenizer), and R-tree: the tree that explicit tags induce (statement of C04).

use serde::{Deserialize, Serialize};

#[derive(Clone, Debug, PartialEq, Eq, Hash, Serialize, Deserialize)]
pub struct AttrSet {
    /// raw text after the tag name, including the leading space (or empty)
    pub raw: String,
    /// syntactic attributes in source order (name as written, raw value)
    pub parsed: Vec<(String, String)>,
}

impl AttrSet {
    pub fn new(raw: &str, parsed: &[(&str, &str)]) -> Self {
        AttrSet { raw: raw.to_string(), parsed: parsed.iter().map(|(a, b)| (a.to_string(), b.to_string())).collect() }
    }
    pub fn none() -> Self {
        AttrSet::new("", &[])
    }
}

#[derive(Clone, Debug, PartialEq, Eq, Hash, Serialize, Deserialize)]
pub enum DEv {
    Open { name: String, attrs: AttrSet, slash: bool },
    Close(String),
    Text(String),
    Comment(String),
    Doctype,
}

impl DEv {
    pub fn open(name: &str) -> DEv {
        DEv::Open { name: name.into(), attrs: AttrSet::none(), slash: false }
    }
    pub fn open_a(name: &str, raw: &str, parsed: &[(&str, &str)]) -> DEv {
        DEv::Open { name: name.into(), attrs: AttrSet::new(raw, parsed), slash: false }
    }
    pub fn open_slash(name: &str) -> DEv {
        DEv::Open { name: name.into(), attrs: AttrSet::none(), slash: true }
    }
    pub fn close(name: &str) -> DEv {
        DEv::Close(name.into())
    }
    pub fn render_into(&self, out: &mut Vec<u8>) {
        match self {
            DEv::Open { name, attrs, slash } => {
                out.push(b'<');
                out.extend_from_slice(name.as_bytes());
                out.extend_from_slice(attrs.raw.as_bytes());
                if *slash {
                    out.push(b'/');
                }
                out.push(b'>');
            }
            DEv::Close(n) => {
                out.extend_from_slice(b"</");
                out.extend_from_slice(n.as_bytes());
                out.push(b'>');
            }
            DEv::Text(t) => out.extend_from_slice(t.as_bytes()),
            DEv::Comment(c) => {
                out.extend_from_slice(b"<!--");
                out.extend_from_slice(c.as_bytes());
                out.extend_from_slice(b"-->");
            }
            DEv::Doctype => out.extend_from_slice(b"<!DOCTYPE html>"),
        }
    }
}

pub struct Rendered {
    pub bytes: Vec<u8>,
    /// byte range of each event
    pub spans: Vec<(usize, usize)>,
}

pub fn render(evs: &[DEv]) -> Rendered {
    let mut bytes = vec![];
    let mut spans = vec![];
    for e in evs {
        let s = bytes.len();
        e.render_into(&mut bytes);
        spans.push((s, bytes.len()));
    }
    Rendered { bytes, spans }
}

/// Render in another (ASCII-compatible) encoding: every event's text is transcoded.
pub fn render_enc(evs: &[DEv], enc: &'static encoding_rs::Encoding) -> Rendered {
    let mut bytes = vec![];
    let mut spans = vec![];
    for e in evs {
        let s = bytes.len();
        let mut tmp = vec![];
        e.render_into(&mut tmp);
        let (b, _, _) = enc.encode(std::str::from_utf8(&tmp).unwrap());
        bytes.extend_from_slice(&b);
        spans.push((s, bytes.len()));
    }
    Rendered { bytes, spans }
}

pub const VOID: &[&str] = &[
    "area", "base", "basefont", "bgsound", "br", "col", "embed", "hr", "img", "input", "keygen", "link", "meta",
    "param", "source", "track", "wbr",
];

/// HTML tags that leave foreign content when they appear inside svg/math.
pub const BREAKOUT: &[&str] = &[
    "b", "big", "blockquote", "body", "br", "center", "code", "dd", "div", "dl", "dt", "em", "embed", "h1", "h2",
    "h3", "h4", "h5", "h6", "head", "hr", "i", "img", "li", "listing", "menu", "meta", "nobr", "ol", "p", "pre",
    "ruby", "s", "small", "span", "strong", "strike", "sub", "sup", "table", "tt", "u", "ul", "var",
];

#[derive(Clone, Copy, Debug, PartialEq, Eq, Hash)]
pub enum Ns {
    Html,
    Svg,
    MathMl,
}

impl Ns {
    pub fn uri(self) -> &'static str {
        match self {
            Ns::Html => "http://www.w3.org/1999/xhtml",
            Ns::Svg => "http://www.w3.org/2000/svg",
            Ns::MathMl => "http://www.w3.org/1998/Math/MathML",
        }
    }
}

#[derive(Clone, Debug)]
pub struct Node {
    pub ev: usize,
    pub name: String,
    pub ns: Ns,
    /// namespace of the element's children: HTML inside an integration point (svg
    /// foreignObject/desc/title, MathML mi/mo/mn/ms/mtext, annotation-xml with an HTML encoding)
    pub content_ns: Ns,
    /// lower-cased names, first duplicate wins
    pub attrs: Vec<(String, String)>,
    pub parent: Option<usize>,
    /// 1-based index among element siblings
    pub child_index: usize,
    /// 1-based index among element siblings with the same name
    pub type_index: usize,
    /// no content possible: void element or self-closing syntax in foreign content
    pub empty: bool,
    /// event index of the end tag that closes it (its own or an ancestor's); None if never closed or empty
    pub closed_by: Option<usize>,
    /// whether `closed_by` is the element's own end tag
    pub closed_by_own: bool,
}

pub struct Tree {
    pub nodes: Vec<Node>,
    /// for every event: indices of the elements open at that point (outermost first), *before*
    /// the event takes effect
    pub open_at: Vec<Vec<usize>>,
    /// for Open events: node index
    pub node_of_ev: Vec<Option<usize>>,
    /// the generator refuses documents outside the claimed domain (e.g. HTML breakout tags in svg)
    pub in_domain: bool,
}

pub fn is_integration_point(ns: Ns, lname: &str, attrs: &[(String, String)]) -> bool {
    match ns {
        Ns::Svg => matches!(lname, "foreignobject" | "desc" | "title"),
        Ns::MathMl => {
            matches!(lname, "mi" | "mo" | "mn" | "ms" | "mtext")
                || (lname == "annotation-xml"
                    && attrs.iter().any(|(n, v)| n == "encoding" && (v.eq_ignore_ascii_case("text/html") || v.eq_ignore_ascii_case("application/xhtml+xml"))))
        }
        Ns::Html => false,
    }
}

pub fn dedup_lower(attrs: &[(String, String)]) -> Vec<(String, String)> {
    let mut out: Vec<(String, String)> = vec![];
    for (n, v) in attrs {
        let n = n.to_ascii_lowercase();
        if !out.iter().any(|(m, _)| *m == n) {
            out.push((n, v.clone()));
        }
    }
    out
}

/// R-tree: an element is a child of the innermost element still open; elements are closed by a
/// matching end tag, by an ancestor's end tag, immediately if void, or by self-closing syntax in
/// foreign content.
pub fn build_tree(evs: &[DEv]) -> Tree {
    let mut nodes: Vec<Node> = vec![];
    let mut stack: Vec<usize> = vec![];
    let mut open_at = vec![];
    let mut node_of_ev = vec![None; evs.len()];
    let mut in_domain = true;
    // children counters: per parent (None = root): total and per-name
    use std::collections::HashMap;
    let mut child_count: HashMap<Option<usize>, usize> = HashMap::new();
    let mut type_count: HashMap<(Option<usize>, String), usize> = HashMap::new();
    for (i, e) in evs.iter().enumerate() {
        open_at.push(stack.clone());
        match e {
            DEv::Open { name, attrs, slash } => {
                let lname = name.to_ascii_lowercase();
                let parent = stack.last().copied();
                let parent_ns = parent.map(|p| nodes[p].content_ns).unwrap_or(Ns::Html);
                let ns = if lname == "svg" {
                    Ns::Svg
                } else if lname == "math" {
                    Ns::MathMl
                } else {
                    parent_ns
                };
                if parent_ns != Ns::Html && BREAKOUT.contains(&lname.as_str()) {
                    in_domain = false;
                }
                // An HTML element, inside the HTML content of an integration point, that is named
                // like an integration point of the enclosing island (`<svg><desc><desc>`,
                // `<math><mi><mi>`): the namespace simulation is keyed on end-tag names and leaves
                // the integration point at the inner element's end tag. Stated limit (DESIGN §8.3).
                if ns == Ns::Html {
                    if let Some(island) = stack.iter().rev().map(|&n| nodes[n].ns).find(|n| *n != Ns::Html) {
                        if is_integration_point(island, &lname, &[("encoding".to_string(), "text/html".to_string())]) {
                            in_domain = false;
                        }
                    }
                }
                let empty = if ns == Ns::Html { VOID.contains(&lname.as_str()) } else { *slash };
                let ci = child_count.entry(parent).or_insert(0);
                *ci += 1;
                let ti = type_count.entry((parent, lname.clone())).or_insert(0);
                *ti += 1;
                let idx = nodes.len();
                let dattrs = dedup_lower(&attrs.parsed);
                let content_ns = if is_integration_point(ns, &lname, &dattrs) { Ns::Html } else { ns };
                nodes.push(Node {
                    ev: i,
                    name: lname,
                    ns,
                    content_ns,
                    attrs: dattrs,
                    parent,
                    child_index: *ci,
                    type_index: *ti,
                    empty,
                    closed_by: None,
                    closed_by_own: false,
                });
                node_of_ev[i] = Some(idx);
                if !empty {
                    stack.push(idx);
                }
            }
            DEv::Close(name) => {
                let lname = name.to_ascii_lowercase();
                if let Some(pos) = stack.iter().rposition(|&n| nodes[n].name == lname) {
                    for (k, &n) in stack[pos..].iter().enumerate() {
                        nodes[n].closed_by = Some(i);
                        nodes[n].closed_by_own = k == 0;
                        // A foreign root closed implicitly by an ancestor's end tag is outside the
                        // claimed domain (C03: well-nested SVG/MathML islands): the namespace
                        // simulation is keyed on the explicit </svg> / </math>.
                        if k > 0 && (nodes[n].name == "svg" || nodes[n].name == "math") {
                            in_domain = false;
                        }
                        // likewise an integration point closed by an end tag seen inside its HTML
                        // content (the tree builder ignores such an end tag)
                        if k > 0 && nodes[n].content_ns != nodes[n].ns {
                            in_domain = false;
                        }
                    }
                    stack.truncate(pos);
                } else if stack.iter().any(|&n| nodes[n].ns != Ns::Html) {
                    // a stray end tag inside an SVG/MathML island: not a well-nested island (the
                    // namespace simulation is keyed on end-tag names)
                    in_domain = false;
                }
            }
            _ => {}
        }
    }
    Tree { nodes, open_at, node_of_ev, in_domain }
}
