//! Shared menus and helpers for the tag-soup properties (C01, C02, C06, C09, C15).

use crate::alpha::*;
use crate::drive::*;
use encoding_rs::Encoding;

pub fn doc_all() -> Vec<HSpec> {
    vec![
        HSpec::obs(HKind::DocDoctype, ""),
        HSpec::obs(HKind::DocComments, ""),
        HSpec::obs(HKind::DocText, ""),
        HSpec::obs(HKind::DocEnd, ""),
    ]
}

/// H: observer handler sets (no mutation).
pub fn observer_menu() -> Vec<(&'static str, Vec<HSpec>)> {
    let mut everything = vec![
        HSpec::obs(HKind::Element, "*"),
        HSpec::obs(HKind::Text, "*"),
        HSpec::obs(HKind::Comments, "*"),
        HSpec::obs_end_tag("a"),
    ];
    everything.extend(doc_all());
    vec![
        ("none", vec![]),
        ("doc-doctype", vec![HSpec::obs(HKind::DocDoctype, "")]),
        ("doc-comments", vec![HSpec::obs(HKind::DocComments, "")]),
        ("doc-text", vec![HSpec::obs(HKind::DocText, "")]),
        ("doc-end", vec![HSpec::obs(HKind::DocEnd, "")]),
        ("doc-all", doc_all()),
        ("el(*)", vec![HSpec::obs(HKind::Element, "*")]),
        ("el(a)", vec![HSpec::obs(HKind::Element, "a")]),
        ("text(a)", vec![HSpec::obs(HKind::Text, "a")]),
        ("comments(a)", vec![HSpec::obs(HKind::Comments, "a")]),
        ("endtag(a)", vec![HSpec::obs_end_tag("a")]),
        ("el(a[b])", vec![HSpec::obs(HKind::Element, "a[b]")]),
        ("el(template a)", vec![HSpec::obs(HKind::Element, "template a")]),
        ("el(zzz)", vec![HSpec::obs(HKind::Element, "zzz")]),
        ("text(title)+text(script)", vec![
            HSpec::obs(HKind::Text, "title"),
            HSpec::obs(HKind::Text, "script"),
        ]),
        ("everything", everything),
    ]
}

/// Marker handlers: insert \x01…\x02 strings (bytes no input alphabet contains).
pub fn marker_menu() -> Vec<(&'static str, Vec<HSpec>)> {
    let m = |s: &str| Op::Before(format!("\x01{s}\x02"), true);
    let ma = |s: &str| Op::After(format!("\x01{s}\x02"), true);
    vec![
        ("mark-el(a)", vec![HSpec::with_ops(
            HKind::Element,
            "a",
            vec![m("eb"), ma("ea"), Op::Prepend("\x01p\x02".into(), true), Op::Append("\x01ap\x02".into(), true)],
        )]),
        ("mark-text(*)+comments(*)", vec![
            HSpec { last_only: true, ..HSpec::with_ops(HKind::Text, "*", vec![m("tb")]) },
            HSpec::with_ops(HKind::Comments, "*", vec![ma("ca")]),
        ]),
        ("mark-doc", vec![
            HSpec { last_only: true, ..HSpec::with_ops(HKind::DocText, "", vec![ma("dt")]) },
            HSpec::with_ops(HKind::DocComments, "", vec![m("dc")]),
            HSpec::with_ops(HKind::DocEnd, "", vec![Op::Append("\x01end\x02".into(), true)]),
        ]),
        ("remove-el(a)", vec![HSpec::with_ops(HKind::Element, "a", vec![Op::Remove])]),
        ("remove-text(*)", vec![HSpec::with_ops(HKind::Text, "*", vec![Op::Remove])]),
        ("rewrite-el(*)", vec![HSpec {
            kind: HKind::Element,
            sel: "*".into(),
            ops: vec![Op::SetAttr("k".into(), "v".into()), Op::SetTagName("q".into())],
            end_tag_ops: Some(vec![Op::After("\x01et\x02".into(), true)]),
            log: true,
            last_only: false,
            merge: false,
            streaming: false,
        }]),
        ("inner-el(title)", vec![HSpec::with_ops(
            HKind::Element,
            "title",
            vec![Op::SetInner("\x01in\x02".into(), false)],
        )]),
    ]
}

pub fn has_text_handler(cfg: &Cfg) -> bool {
    cfg.handlers
        .iter()
        .any(|h| matches!(h.kind, HKind::Text | HKind::DocText))
}

/// R-enc: does `enc` round-trip these bytes exactly (no malformed / non-canonical sequence)?
pub fn roundtrips(enc: &'static Encoding, b: &[u8]) -> bool {
    let (s, had_err) = enc.decode_without_bom_handling(b);
    if had_err {
        return false;
    }
    let (back, _, unmappable) = enc.encode(&s);
    !unmappable && &*back == b
}

/// Document prefixes with a charset declaration (for configurations with
/// adjust_charset_on_meta_tag): (prefix, label of the encoding in effect after it, if it switches).
pub const MCTX: &[(&str, Option<&str>)] = &[
    ("<meta charset=windows-1252>", Some("windows-1252")),
    ("<meta charset=\"shift_jis\">x", Some("shift_jis")),
    ("<meta http-equiv=\"Content-Type\" content=\"text/html; charset=windows-1251\">", Some("windows-1251")),
    ("\u{e9}<meta charset=koi8-r>", Some("koi8-r")),
    ("<meta charset=utf-16>", None),
    ("<meta http-equiv=\"Content-Type\" content=\"text/html; charset=utf-16le\">", None),
    ("<meta charset=utf-8><meta charset=gbk>", None),
    // a recognised label the rewriter cannot use does not count as "the" declaration
    ("<meta charset=utf-16be><meta charset=koi8-r>", Some("koi8-r")),
];

/// Round-trip test for a document that starts with one of the MCTX prefixes: the prefix in the
/// initial encoding, the rest in the encoding the declaration switches to.
pub fn roundtrips_meta(enc0: &'static Encoding, b: &[u8]) -> bool {
    for (pre, label) in MCTX {
        if b.starts_with(pre.as_bytes()) {
            let enc1 = label.and_then(|l| Encoding::for_label(l.as_bytes())).unwrap_or(enc0);
            return roundtrips(enc0, &b[..pre.len()]) && roundtrips(enc1, &b[pre.len()..]);
        }
    }
    roundtrips(enc0, b)
}

/// Substitute the UTF-8 `é` placeholder by a valid character of the target encoding.
pub fn adapt_to_encoding(input: &[u8], enc: &'static Encoding) -> Vec<u8> {
    if enc == encoding_rs::UTF_8 {
        return input.to_vec();
    }
    let generic;
    let repl: &[u8] = if enc == encoding_rs::SHIFT_JIS {
        &[0x83, 0x41] // U+30A2: trail byte is ASCII 'A'
    } else if enc == encoding_rs::GB18030 {
        &[0x81, 0x30, 0x81, 0x30] // four-byte sequence with ASCII-digit trail bytes
    } else if enc == encoding_rs::BIG5 || enc == encoding_rs::GBK || enc == encoding_rs::EUC_KR {
        &[0xA4, 0x40 + 0x21]
    } else {
        // the first of a few characters the encoding can represent
        generic = ["\u{e9}", "\u{416}", "\u{30a2}", "\u{3b1}", "\u{5d0}", "\u{e01}", "\u{4e2d}"]
            .iter()
            .find_map(|c| {
                let (b, _, unmappable) = enc.encode(c);
                (!unmappable && !b.is_ascii()).then(|| b.into_owned())
            })
            .unwrap_or_else(|| vec![0xE9]);
        &generic
    };
    let mut out = Vec::with_capacity(input.len());
    let mut i = 0;
    while i < input.len() {
        if input[i] == 0xC3 && i + 1 < input.len() && input[i + 1] == 0xA9 {
            out.extend_from_slice(repl);
            i += 2;
        } else {
            out.push(input[i]);
            i += 1;
        }
    }
    out
}

pub fn all_encodings() -> Vec<&'static Encoding> {
    lol_html::test_utils::ASCII_COMPATIBLE_ENCODINGS.to_vec()
}

/// An input space: all sequences over an alphabet up to a length.
#[derive(Clone, Copy, Debug)]
pub enum Space {
    Frags { k: usize, max: usize },
    Bytes { max: usize },
    /// every context prefix of CTX followed by every F-sequence
    CtxFrags { k: usize, max: usize },
    /// every context prefix of CTX followed by every B16-sequence
    CtxBytes { max: usize },
    /// every foreign-content context of FCTX followed by every FFRAGS-sequence
    Foreign { max: usize },
    /// every charset-declaring prefix of MCTX followed by every F-sequence
    MetaFrags { k: usize, max: usize },
}

/// Foreign-content contexts (SVG / MathML, and HTML inside their integration points).
pub const FCTX: &[&str] = &[
    "<svg>", "<svg><g>", "<math>", "<math><mi>", "<svg><desc>", "<svg><foreignObject>",
    "<math><annotation-xml encoding=\"text/html\">",
    // a foreign root with attributes that is not at the start of the document
    "t<svg k=v w='x'>", "<p>t</p><math k=v><mi>",
    "<math><annotation-xml encoding=\"image/svg+xml\"><svg>",
];

/// Tag fragments for foreign content: names that are ordinary (a), need attributes (font), are
/// integration points (title, mi), cannot be hashed (x-y, linearGradient: 14 characters,
/// annotation-xml) x complete / unfinished / self-closing / end-tag shapes, plus a few text-level
/// fragments.
pub static FFRAGS: std::sync::LazyLock<Vec<String>> = std::sync::LazyLock::new(|| {
    let mut v = vec![];
    for n in ["a", "font", "title", "mi", "x-y", "linearGradient", "annotation-xml"] {
        for shape in ["<N>", "<N ", "<N b=c>", "<N b=\"c", "<N/>", "</N>", "</N "] {
            v.push(shape.replace('N', n));
        }
    }
    // (leaving the island: its end tag, the other root's end tag, an HTML break-out tag)
    for t in ["x", "<!--", "-->", "<![CDATA[", "]]>", ">", "</svg>", "</math>", "<p>"] {
        v.push(t.to_string());
    }
    v
});

/// Context prefixes that put the tokenizer into each of its non-initial modes before the
/// enumerated tail starts (text modes, escaped script data, CDATA, doctype, select, foreign).
pub const CTX: &[&str] = &[
    "<script>", "<script><!--", "<script><!--<script>", "<title>", "<textarea>", "<style>",
    "<xmp>", "<plaintext>", "<svg><![CDATA[", "<svg>", "<math><mi>", "<!DOCTYPE a ", "<select>",
    "<!--", "<a b=\"", "<template><select>", "<svg><desc>", "<noscript>",
];

impl Space {
    pub fn size(&self) -> usize {
        match *self {
            Space::Frags { k, max } => count_upto(k, max),
            Space::Bytes { max } => count_upto(B16.len(), max),
            Space::CtxFrags { k, max } => CTX.len() * count_upto(k, max),
            Space::CtxBytes { max } => CTX.len() * count_upto(B16.len(), max),
            Space::Foreign { max } => FCTX.len() * count_upto(FFRAGS.len(), max),
            Space::MetaFrags { k, max } => MCTX.len() * count_upto(k, max),
        }
    }
    pub fn render(&self, i: usize, idx: &mut Vec<usize>, out: &mut Vec<u8>) {
        match *self {
            Space::Frags { k, .. } => {
                seq_at(i, k, idx);
                render_frags(F, idx, out);
            }
            Space::Bytes { .. } => {
                seq_at(i, B16.len(), idx);
                render_bytes(B16, idx, out);
            }
            Space::CtxFrags { k, .. } => {
                seq_at(i / CTX.len(), k, idx);
                render_frags(F, idx, out);
                out.splice(0..0, CTX[i % CTX.len()].bytes());
            }
            Space::CtxBytes { .. } => {
                seq_at(i / CTX.len(), B16.len(), idx);
                render_bytes(B16, idx, out);
                out.splice(0..0, CTX[i % CTX.len()].bytes());
            }
            Space::MetaFrags { k, .. } => {
                seq_at(i / MCTX.len(), k, idx);
                render_frags(F, idx, out);
                out.splice(0..0, MCTX[i % MCTX.len()].0.bytes());
            }
            Space::Foreign { .. } => {
                seq_at(i / FCTX.len(), FFRAGS.len(), idx);
                out.clear();
                out.extend_from_slice(FCTX[i % FCTX.len()].as_bytes());
                for &k in idx.iter() {
                    out.extend_from_slice(FFRAGS[k].as_bytes());
                }
            }
        }
    }
    pub fn label(&self) -> String {
        match *self {
            Space::Frags { k, max } => format!("F{k}<={max}"),
            Space::Bytes { max } => format!("B16<={max}"),
            Space::CtxFrags { k, max } => format!("CTXxF{k}<={max}"),
            Space::CtxBytes { max } => format!("CTXxB16<={max}"),
            Space::Foreign { max } => format!("FCTXxFF<={max}"),
            Space::MetaFrags { k, max } => format!("MCTXxF{k}<={max}"),
        }
    }
}

/// Normalised handler log for schedule comparisons (C02): text chunks of one text node (per
/// handler registration) are merged; the merged event keeps concatenated text, text type and
/// the node's byte range; exactly one chunk per node must carry `last_in_text_node`.
pub fn normalise_events(events: &[Ev]) -> Result<Vec<Ev>, String> {
    use std::collections::BTreeMap;
    let mut out: Vec<Ev> = Vec::with_capacity(events.len());
    // open text node per registration index: index into `out`
    let mut open: BTreeMap<u16, usize> = BTreeMap::new();
    for e in events {
        match e {
            Ev::Text { reg, text, ty, last, loc } => {
                if let Some(&i) = open.get(reg) {
                    if let Ev::Text { text: t0, ty: ty0, loc: loc0, last: l0, .. } = &mut out[i] {
                        if *ty0 != *ty {
                            return Err(format!("text type changed inside a text node: {ty0} -> {ty}"));
                        }
                        t0.push_str(text);
                        if loc.1 > loc0.1 {
                            loc0.1 = loc.1;
                        }
                        *l0 = *last;
                    }
                    if *last {
                        open.remove(reg);
                    }
                } else {
                    out.push(Ev::Text { reg: *reg, text: text.clone(), ty: *ty, last: *last, loc: *loc });
                    if !*last {
                        open.insert(*reg, out.len() - 1);
                    }
                }
            }
            other => out.push(other.clone()),
        }
    }
    if let Some((reg, _)) = open.iter().next() {
        return Err(format!("text node of handler #{reg} never got last_in_text_node"));
    }
    Ok(out)
}

/// Enumerate a whole input space in parallel; `f(i, raw_input)`.
pub fn sweep_space(
    ctx: &crate::explore::Ctx,
    name: &str,
    space: Space,
    f: &(dyn Fn(usize, &[u8]) + Sync),
) {
    let n = space.size();
    crate::explore::par_for(n, 32, |i| {
        if ctx.over_time() {
            return;
        }
        let mut idx = vec![];
        let mut raw = vec![];
        space.render(i, &mut idx, &mut raw);
        f(i, &raw);
    });
    if !ctx.capped.load(std::sync::atomic::Ordering::Relaxed) {
        ctx.level_done(name);
    }
}

pub fn prep_menu(
    menu: &[(&str, Vec<HSpec>)],
    pick: &[&str],
    strict: &[bool],
    enc: &str,
) -> Vec<Prepared> {
    let mut v = vec![];
    for (name, hs) in menu {
        if !pick.is_empty() && !pick.contains(name) {
            continue;
        }
        for &s in strict {
            v.push(Prepared::new(Cfg::with(hs.clone()).strict(s).enc(enc)).unwrap());
        }
    }
    v
}

/// Lenient normalisation for runs that ended in an error: an unterminated text node is kept.
pub fn normalise_events_lenient(events: &[Ev]) -> Vec<Ev> {
    let mut evs = events.to_vec();
    // close every open node artificially
    let mut open: std::collections::BTreeSet<u16> = Default::default();
    for e in events {
        if let Ev::Text { reg, last, .. } = e {
            if *last {
                open.remove(reg);
            } else {
                open.insert(*reg);
            }
        }
    }
    for reg in open {
        // find the last chunk of this reg and mark it last
        if let Some(Ev::Text { last, .. }) = evs
            .iter_mut()
            .rev()
            .find(|e| matches!(e, Ev::Text { reg: r, .. } if *r == reg))
        {
            *last = true;
        }
    }
    normalise_events(&evs).unwrap_or(evs)
}

/// Drop every source location (C02 compares content; ranges are C14's business, which has
/// its own schedule-independence comparison).
pub fn strip_text_locs(events: &mut [Ev]) {
    for e in events {
        match e {
            Ev::Text { loc, .. }
            | Ev::Comment { loc, .. }
            | Ev::Doctype { loc, .. }
            | Ev::EndTag { loc, .. } => *loc = (0, 0),
            Ev::El { loc, attrs, .. } => {
                *loc = (0, 0);
                for a in attrs {
                    a.nloc = None;
                    a.vloc = None;
                }
            }
            _ => {}
        }
    }
}

/// Scaled documents: the small-alphabet spaces never reach the size thresholds inside the
/// implementation (12-character name hash, 32/64-entry sets, the 1 KiB text decoding buffer,
/// buffer growth steps). Each template is instantiated for every size just below, at and just
/// above each threshold.
pub fn scaled_sizes(quick: bool) -> Vec<usize> {
    if quick {
        vec![11, 12, 13, 32, 33, 64, 65, 255, 257, 1023, 1024, 1025, 2049]
    } else {
        vec![7, 8, 9, 11, 12, 13, 14, 15, 16, 17, 31, 32, 33, 63, 64, 65, 127, 128, 129, 255, 256, 257, 511, 512, 513, 1021, 1022, 1023, 1024, 1025, 1026, 2047, 2048, 2049, 4097]
    }
}

pub fn scaled_docs(quick: bool) -> Vec<(String, Vec<u8>)> {
    let mut v: Vec<(String, Vec<u8>)> = vec![];
    for n in scaled_sizes(quick) {
        let x = "x".repeat(n);
        let q = "q".repeat(n);
        let mut docs: Vec<(&str, String)> = vec![
            ("text", format!("<p>{x}</p>y")),
            ("text with a non-ASCII character at the end", format!("<p>{x}\u{e9}z</p>")),
            ("non-ASCII text", format!("<p>{}</p>", "\u{e9}".repeat(n / 2 + 1))),
            ("non-ASCII character followed by an ASCII run", format!("<p>ab\u{e9}{x}</p>")),
            ("comment", format!("<!--{x}-->t")),
            ("comment of dashes", format!("a<!--{}>b-->c", "-".repeat(n))),
            ("attribute value", format!("<a b=\"{x}\" c='{x}' d={x}>t</a>")),
            ("tag name", format!("<{q} k=v>t</{q}>u<{q}/>")),
            ("attribute name", format!("<a {q}=v {q}>t</a>")),
            ("script with an end-tag look-alike", format!("<script>{x}</scrip{x}</script>t")),
            ("escaped script data", format!("<script><!--<script>{x}</script>{x}--></script>t")),
            ("textarea", format!("<textarea>{x}</textare></textarea>t")),
            ("title then text", format!("<title>{x}</title>{x}")),
            ("cdata in svg", format!("<svg><![CDATA[{x}]]{x}]]><a/></svg>")),
            ("doctype", format!("<!DOCTYPE html PUBLIC \"{x}\" '{x}'>t")),
            ("bogus comment", format!("<!{x}>t<?{x}>u</ {x}>v")),
            ("whitespace run inside a tag", format!("<a{}b=c>t", " ".repeat(n))),
            ("text ending in a partial tag", format!("{x}<a b=\"{x}")),
        ];
        if n <= 300 {
            docs.push(("many attributes", format!("<a{}>t</a>", (0..n).map(|i| format!(" k{i}=v{i}")).collect::<String>())));
            docs.push(("many duplicate attributes", format!("<a{}>t</a>", " k=v".repeat(n))));
            docs.push(("many elements", "<b>t</b><!--c-->".repeat(n)));
            docs.push(("nesting", format!("{}t{}", "<div>".repeat(n), "</div>".repeat(n))));
            docs.push(("many void and self-closing tags", format!("<svg>{}</svg>{}", "<a/>".repeat(n), "<br>".repeat(n))));
        }
        for (l, d) in docs.drain(..) {
            v.push((format!("{l}, n={n}"), d.into_bytes()));
        }
    }
    v
}

/// Schedules for a scaled document: fixed chunk sizes and single / double cuts around the
/// size thresholds and around the end of the document.
pub fn scaled_scheds(len: usize, quick: bool) -> Vec<Sched> {
    let mut v = vec![];
    let sizes: &[usize] = if quick { &[1, 7, 1024] } else { &[1, 2, 7, 15, 1000, 1023, 1024, 1025] };
    for &c in sizes {
        if c < len && (c > 1 || len <= 2600) {
            v.push(Sched { cuts: (1..len).filter(|i| i % c == 0).collect(), empty_at: None });
        }
    }
    let mut marks: Vec<usize> = vec![];
    for t in [12usize, 13, 1023, 1024, 1025, 2048] {
        for base in [0usize, 3, 4, 8] {
            marks.push(base + t);
        }
    }
    for back in 1..=4 {
        marks.push(len.saturating_sub(back));
    }
    // (the first bytes of the document: every template starts its interesting part there)
    marks.extend(1..=8);
    marks.sort();
    marks.dedup();
    marks.retain(|&m| m >= 1 && m < len);
    for &m in &marks {
        v.push(Sched { cuts: vec![m], empty_at: None });
    }
    if !quick {
        for (i, &a) in marks.iter().enumerate() {
            for &b in &marks[i + 1..] {
                v.push(Sched { cuts: vec![a, b], empty_at: Some(1) });
            }
        }
    }
    v
}
