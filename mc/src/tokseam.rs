//! The all-token view of the implementation: `TransformStream` + a recording
//! `TransformController` (exposed by the repository's own `_integration_test` feature).

use crate::drive::{CallRes, err_code, panic_msg};
use crate::rtok::{Tok, push_text};
use lol_html::errors::RewritingError;
use lol_html::html_content::DocumentEnd;
use lol_html::{
    AsciiCompatibleEncoding, LocalName, Namespace, SharedMemoryLimiter, StartTagHandlingResult,
    Token, TokenCaptureFlags, TransformController, TransformStream, TransformStreamSettings,
};
use std::cell::RefCell;
use std::panic::{AssertUnwindSafe, catch_unwind};
use std::rc::Rc;

struct Ctl {
    flags: TokenCaptureFlags,
    toks: Rc<RefCell<Vec<Tok>>>,
}

impl TransformController for Ctl {
    fn initial_capture_flags(&self) -> TokenCaptureFlags {
        self.flags
    }
    fn handle_start_tag(&mut self, _: LocalName<'_>, _: Namespace) -> StartTagHandlingResult<Self> {
        Ok(self.flags)
    }
    fn handle_end_tag(&mut self, _: LocalName<'_>) -> TokenCaptureFlags {
        self.flags
    }
    fn handle_token(&mut self, token: &mut Token<'_>) -> Result<(), RewritingError> {
        let mut toks = self.toks.borrow_mut();
        match token {
            Token::TextChunk(t) => push_text(&mut toks, t.as_str()),
            Token::StartTag(t) => toks.push(Tok::Start {
                name: t.name(),
                attrs: t.attributes().iter().map(|a| (a.name(), a.value())).collect(),
                sc: t.self_closing(),
            }),
            Token::EndTag(t) => toks.push(Tok::End { name: t.name() }),
            Token::Comment(c) => toks.push(Tok::Comment(c.text())),
            Token::Doctype(d) => toks.push(Tok::Doctype {
                name: d.name(),
                public: d.public_id(),
                system: d.system_id(),
                fq: Some(d.force_quirks()),
            }),
        }
        Ok(())
    }
    fn handle_end(&mut self, _: &mut DocumentEnd<'_>) -> Result<(), RewritingError> {
        Ok(())
    }
    fn should_emit_content(&self) -> bool {
        true
    }
}

pub struct SeamRun {
    pub toks: Vec<Tok>,
    pub out: Vec<u8>,
    pub res: CallRes,
    pub calls: usize,
}

pub fn run_seam(chunks: &[&[u8]], flags_bits: u8, strict: bool) -> SeamRun {
    let _busy = crate::drive::busy(None);
    let toks = Rc::new(RefCell::new(Vec::new()));
    let out = Rc::new(RefCell::new(Vec::new()));
    let o2 = out.clone();
    let t2 = toks.clone();
    let mut calls = 0;
    let r = catch_unwind(AssertUnwindSafe(|| {
        let mut ts = TransformStream::new(TransformStreamSettings {
            transform_controller: Ctl { flags: TokenCaptureFlags::from_bits_truncate(flags_bits), toks: t2 },
            output_sink: move |c: &[u8]| o2.borrow_mut().extend_from_slice(c),
            preallocated_parsing_buffer_size: 0,
            memory_limiter: SharedMemoryLimiter::new(usize::MAX),
            encoding: AsciiCompatibleEncoding::utf_8(),
            next_encoding: Default::default(),
            strict,
            graceful_bail_out_on_memory_limit_exceeded: false,
            graceful_bail_out_on_content_handler_error: false,
        });
        for c in chunks {
            calls += 1;
            ts.write(c)?;
        }
        calls += 1;
        ts.end()
    }));
    let res = match r {
        Ok(Ok(())) => CallRes::Ok,
        Ok(Err(e)) => CallRes::Err(err_code(&e), e.to_string()),
        Err(e) => CallRes::Panic(panic_msg(e)),
    };
    let toks = toks.borrow().clone();
    let out = out.borrow().clone();
    SeamRun { toks, out, res, calls }
}
