//! R-match: a direct CSS matcher over R-tree, and the selector grammar S as an AST that is
//! rendered to selector strings (so no selector parser is shared with the implementation).

use crate::docgen::{Node, Tree};
use serde::{Deserialize, Serialize};

#[derive(Clone, Copy, Debug, PartialEq, Eq, Hash, Serialize, Deserialize)]
pub enum AttrOp {
    Eq,
    Includes,
    Dash,
    Prefix,
    Suffix,
    Substr,
}

#[derive(Clone, Copy, Debug, PartialEq, Eq, Hash, Serialize, Deserialize)]
pub enum Case {
    Default,
    I,
    S,
}

#[derive(Clone, Debug, PartialEq, Eq, Hash, Serialize, Deserialize)]
pub enum Simple {
    Type(String),
    Universal,
    Id(String),
    Class(String),
    AttrExists(String),
    Attr { name: String, op: AttrOp, value: String, case: Case },
    FirstChild,
    NthChild(i32, i32),
    FirstOfType,
    NthOfType(i32, i32),
    /// :not(list of compounds)
    Not(Vec<Compound>),
}

#[derive(Clone, Debug, PartialEq, Eq, Hash, Serialize, Deserialize)]
pub struct Compound(pub Vec<Simple>);

#[derive(Clone, Copy, Debug, PartialEq, Eq, Hash, Serialize, Deserialize)]
pub enum Comb {
    Child,
    Descendant,
}

#[derive(Clone, Debug, PartialEq, Eq, Hash, Serialize, Deserialize)]
pub struct Complex {
    pub compounds: Vec<Compound>,
    pub combs: Vec<Comb>,
}

#[derive(Clone, Debug, PartialEq, Eq, Hash, Serialize, Deserialize)]
pub struct SelList(pub Vec<Complex>);

fn nth(a: i32, b: i32) -> String {
    match (a, b) {
        (0, b) => format!("{b}"),
        (a, 0) => format!("{a}n"),
        (a, b) if b > 0 => format!("{a}n+{b}"),
        (a, b) => format!("{a}n{b}"),
    }
}

impl Simple {
    pub fn render(&self) -> String {
        match self {
            Simple::Type(t) => t.clone(),
            Simple::Universal => "*".into(),
            Simple::Id(i) => format!("#{i}"),
            Simple::Class(c) => format!(".{c}"),
            Simple::AttrExists(n) => format!("[{n}]"),
            Simple::Attr { name, op, value, case } => {
                let o = match op {
                    AttrOp::Eq => "=",
                    AttrOp::Includes => "~=",
                    AttrOp::Dash => "|=",
                    AttrOp::Prefix => "^=",
                    AttrOp::Suffix => "$=",
                    AttrOp::Substr => "*=",
                };
                let c = match case {
                    Case::Default => "",
                    Case::I => " i",
                    Case::S => " s",
                };
                format!("[{name}{o}\"{value}\"{c}]")
            }
            Simple::FirstChild => ":first-child".into(),
            Simple::NthChild(a, b) => format!(":nth-child({})", nth(*a, *b)),
            Simple::FirstOfType => ":first-of-type".into(),
            Simple::NthOfType(a, b) => format!(":nth-of-type({})", nth(*a, *b)),
            Simple::Not(list) => format!(":not({})", list.iter().map(|c| c.render()).collect::<Vec<_>>().join(", ")),
        }
    }
}

impl Compound {
    pub fn render(&self) -> String {
        // type/universal selector must come first
        let mut s = String::new();
        for x in &self.0 {
            if matches!(x, Simple::Type(_) | Simple::Universal) {
                s.push_str(&x.render());
            }
        }
        for x in &self.0 {
            if !matches!(x, Simple::Type(_) | Simple::Universal) {
                s.push_str(&x.render());
            }
        }
        s
    }
    pub fn one(s: Simple) -> Compound {
        Compound(vec![s])
    }
}

impl Complex {
    pub fn render(&self) -> String {
        let mut s = self.compounds[0].render();
        for (i, c) in self.combs.iter().enumerate() {
            s.push_str(match c {
                Comb::Child => " > ",
                Comb::Descendant => " ",
            });
            s.push_str(&self.compounds[i + 1].render());
        }
        s
    }
    pub fn single(c: Compound) -> Complex {
        Complex { compounds: vec![c], combs: vec![] }
    }
}

impl SelList {
    pub fn render(&self) -> String {
        self.0.iter().map(|c| c.render()).collect::<Vec<_>>().join(", ")
    }
    pub fn one(c: Complex) -> SelList {
        SelList(vec![c])
    }
}

fn nth_matches(a: i32, b: i32, index: usize) -> bool {
    let i = index as i64;
    let (a, b) = (a as i64, b as i64);
    if a == 0 {
        return i == b;
    }
    let d = i - b;
    d % a == 0 && d / a >= 0
}

fn eq_case(a: &str, b: &str, insensitive: bool) -> bool {
    if insensitive { a.eq_ignore_ascii_case(b) } else { a == b }
}

/// HTML Standard, "case-sensitivity of selectors": attribute names whose values are matched
/// ASCII case-insensitively on HTML elements in HTML documents.
pub const LEGACY_CI_ATTRS: &[&str] = &[
    "accept", "accept-charset", "align", "alink", "axis", "bgcolor", "charset", "checked", "clear", "codetype", "color", "compact", "declare", "defer", "dir",
    "direction", "disabled", "enctype", "face", "frame", "hreflang", "http-equiv", "lang", "language", "link", "media", "method", "multiple", "nohref",
    "noresize", "noshade", "nowrap", "readonly", "rel", "rev", "rules", "scope", "scrolling", "selected", "shape", "target", "text", "type", "valign",
    "valuetype", "vlink",
];

fn attr_matches(actual: &str, op: AttrOp, value: &str, ci: bool) -> bool {
    let (a, v) = if ci { (actual.to_ascii_lowercase(), value.to_ascii_lowercase()) } else { (actual.to_string(), value.to_string()) };
    match op {
        AttrOp::Eq => a == v,
        AttrOp::Includes => !v.is_empty() && !v.contains(|c: char| c.is_ascii_whitespace()) && a.split(|c: char| matches!(c, ' ' | '\t' | '\n' | '\r' | '\x0C')).any(|w| w == v),
        AttrOp::Dash => a == v || (a.len() > v.len() && a.starts_with(&v) && a.as_bytes()[v.len()] == b'-'),
        AttrOp::Prefix => !v.is_empty() && a.starts_with(&v),
        AttrOp::Suffix => !v.is_empty() && a.ends_with(&v),
        AttrOp::Substr => !v.is_empty() && a.contains(&v),
    }
}

/// How `:not()` is evaluated: per CSS (negates its whole argument), or the flattened reading
/// (every simple selector inside is negated on its own) — used only to classify a known finding.
#[derive(Clone, Copy, PartialEq, Eq, Debug)]
pub enum NotMode {
    Css,
    Flattened,
}

fn simple_matches(s: &Simple, n: &Node, mode: NotMode, negated: bool) -> bool {
    // returns the truth of the simple selector *after* applying `negated` in flattened mode
    let pos = match s {
        Simple::Type(t) => n.name == t.to_ascii_lowercase(),
        Simple::Universal => true,
        Simple::Id(i) => n.attrs.iter().any(|(k, v)| k == "id" && v == i),
        Simple::Class(c) => n.attrs.iter().any(|(k, v)| k == "class" && v.split(|ch: char| matches!(ch, ' ' | '\t' | '\n' | '\r' | '\x0C')).any(|w| w == c)),
        Simple::AttrExists(a) => n.attrs.iter().any(|(k, _)| *k == a.to_ascii_lowercase()),
        Simple::Attr { name, op, value, case } => {
            let lname = name.to_ascii_lowercase();
            // HTML: without a flag, the values of these attributes compare ASCII
            // case-insensitively on HTML elements (and only there)
            let ci = *case == Case::I || (*case == Case::Default && n.ns == crate::docgen::Ns::Html && LEGACY_CI_ATTRS.contains(&lname.as_str()));
            n.attrs.iter().find(|(k, _)| *k == lname).is_some_and(|(_, v)| attr_matches(v, *op, value, ci))
        }
        Simple::FirstChild => n.child_index == 1,
        Simple::NthChild(a, b) => nth_matches(*a, *b, n.child_index),
        Simple::FirstOfType => n.type_index == 1,
        Simple::NthOfType(a, b) => nth_matches(*a, *b, n.type_index),
        Simple::Not(list) => {
            return match mode {
                NotMode::Css => {
                    let inner = list.iter().any(|c| compound_matches(c, n, mode));
                    // in CSS mode `negated` is never set
                    !inner
                }
                NotMode::Flattened => {
                    // every simple selector inside is and-ed with flipped polarity
                    list.iter().all(|c| c.0.iter().all(|x| simple_matches(x, n, mode, !negated)))
                }
            };
        }
    };
    let _ = eq_case;
    if negated { !pos } else { pos }
}

pub fn compound_matches(c: &Compound, n: &Node, mode: NotMode) -> bool {
    c.0.iter().all(|s| simple_matches(s, n, mode, false))
}

pub fn complex_matches(c: &Complex, t: &Tree, idx: usize, mode: NotMode) -> bool {
    fn go(c: &Complex, t: &Tree, idx: usize, k: usize, mode: NotMode) -> bool {
        // does node idx match compounds[..=k] ending at compound k?
        if !compound_matches(&c.compounds[k], &t.nodes[idx], mode) {
            return false;
        }
        if k == 0 {
            return true;
        }
        match c.combs[k - 1] {
            Comb::Child => t.nodes[idx].parent.is_some_and(|p| go(c, t, p, k - 1, mode)),
            Comb::Descendant => {
                let mut p = t.nodes[idx].parent;
                while let Some(a) = p {
                    if go(c, t, a, k - 1, mode) {
                        return true;
                    }
                    p = t.nodes[a].parent;
                }
                false
            }
        }
    }
    go(c, t, idx, c.compounds.len() - 1, mode)
}

pub fn list_matches(l: &SelList, t: &Tree, idx: usize, mode: NotMode) -> bool {
    l.0.iter().any(|c| complex_matches(c, t, idx, mode))
}

/// Does the selector contain a `:not()` whose flattened reading can differ from CSS?
pub fn has_nontrivial_not(l: &SelList) -> bool {
    fn simple(s: &Simple, depth: usize) -> bool {
        match s {
            Simple::Not(list) => {
                let odd = depth % 2 == 0; // this :not is at nesting depth+1
                (odd && list.iter().any(|c| c.0.len() >= 2))
                    || (!odd && list.len() >= 2)
                    || list.iter().any(|c| c.0.iter().any(|x| simple(x, depth + 1)))
            }
            _ => false,
        }
    }
    l.0.iter().any(|c| c.compounds.iter().any(|k| k.0.iter().any(|s| simple(s, 0))))
}
