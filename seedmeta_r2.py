#!/usr/bin/env python3
"""Adds property / needs_to_manifest / source to the meta.json of the round-2 seeds (seedcheck writes only what it ran)."""
import json,os
N={
"C01-3":"legacy double-byte encoding, non-mutating text handler, a character with an ASCII-range trail byte split between two text lexemes after decoded text in the same lexeme (fast path re-enabled while the decoder holds a lead byte)",
"C01-4":"UTF-8 rewriter with adjust_charset_on_meta_tag, <meta charset> switching to a legacy encoding, later text (text handler) whose bytes are valid in the new encoding AND well-formed UTF-8 (stale cached is_utf8 flag)",
"C01-5":"text handler and the per-node decoder's first bytes being EF BB BF / FF FE / FE FF (decoder created with BOM sniffing): U+FEFF dropped or text decoded in another encoding",
"C02-3":"text handler, Shift_JIS-like encoding, write boundary between lead and ASCII-range trail byte with decoded text earlier in the same write",
"C02-4":"comment handler, bogus markup declaration (<!ELEMENT ..>, <![CDATA[ in HTML), write boundary right after '<!' or inside a non-completing DOCTYPE/--/[CDATA[ prefix, earlier bytes of the same write consumed (token_part_start not re-aligned)",
"C02-5":"doctype handler, doctype with public/system id not at chunk offset 0, write boundary after the id's closing quote and before '>' (system_id never aligned)",
"C03-3":"strict mode, <select><template> with a stray </select> while the template is open, then </template>, then a text-mode-switching start tag (guard reset by </select> inside template-in-select): missing refusal",
"C03-4":"tag-scan mode, inside HTML content of a MathML integration point, an end tag with an unhashable name followed directly by a start tag (is_in_end_tag not reset when the lexer takes over)",
"C03-5":"one script element containing <!--, <script> (double-escaped), -->, another <script> string and the real </script> ('-->' in double-escaped state returns to escaped instead of script data)",
"C04-3":"a child-combinator step with a class/id/attribute part (bailout in jumps) while an open ancestor has a descendant step that should match the same element: hereditary jumps not run after the bailout",
"C04-4":":nth-of-type/:first-of-type + same-named elements open on >=2 levels closed together by an ancestor's end tag + a later element at the stale level",
"C04-5":"[a*=\"v\"] with an operand of >=2 characters and a value where the real occurrence starts inside the window of an earlier false start (aab, ccol-4)",
"C05-3":">=33 registered selector entries and an element matching only entries with registration index >=32 (DenseHashSet::iter word index)",
"C05-4":"tag-scan mode, unhashable end tag inside a MathML text integration point followed by a start tag (same change family as C03-4)",
"C05-5":"one ElementContentHandlers entry carrying BOTH a comment handler and a text handler: after the matched element closes the text handler stays active",
"C06-3":"same change family as C03-4/C05-4 (is_in_end_tag after a lexer hand-over), seen as scan-vs-lex disagreement",
"C06-4":"self-closing syntax on an HTML text-mode element (<title/>, <script src=x/>) followed by markup, compared across observer sets ('>' arm of self_closing_start_tag_state goes to data state)",
"C06-5":"CDATA in or next to foreign content where one state machine consumed the namespace-changing tag and the other parses the CDATA (cdata_allowed dropped from the bookmark)",
"C07-3":"basefont / bgsound / keygen / param elements with content operations or remove/after (void list reduced to the 13 authoring-spec elements)",
"C07-4":"void or self-closing foreign element: after() followed by remove()/replace() (remove_content clears the start tag's content_after)",
"C07-5":"start tag repeating an attribute name (case-insensitively) + remove_attribute: only the first duplicate removed",
"C08-3":"Comment::set_text with '>' or '!>' after an odd run of >=3 dashes (non-overlapping '--' scan)",
"C08-4":"set_attribute with '\"' in the value on an attribute that already exists (escaping moved to set time, replace path forgotten)",
"C08-5":"set_tag_name with a first character that is a non-ASCII letter (is_alphabetic instead of is_ascii_alphabetic)",
"C09-3":"no handlers, <script> containing <!-- followed by a nested <script (unmark_tag_start missing in the SCRIPT arm of script_data_escaped_less_than_sign_state)",
"C09-4":"lexer mode inside a CDATA section (text/comment observers), chunk boundary inside the CDATA text: text held until ']' (eoc arm removed)",
"C09-5":"no handlers, svg/math start tag whose name cannot be hashed (linearGradient, font-face), write ending inside its attributes: the whole tag is held back",
"C10-3":"buffer shifted by an earlier write, then an append larger than the spare room: try_reserve_exact(additional) under-reserves, extend doubles the capacity unaccounted",
"C10-4":">16 simultaneously open elements with an element handler: LimitedVec accounts the 8-item minimum step while the vector doubles",
"C10-5":"element handler + open elements + a buffered unfinished tag that each fit the limit but together exceed it (selectors VM gets its own limiter)",
"C11-3":"memory-limit bail-out, nothing buffered, one write with a parsed prefix and an unparsed tail too big for the budget: the whole chunk flushed again (consumed prefix duplicated)",
"C11-4":"handler-error bail-out, text handler failing on the first chunk of a text node: lexeme consumed before feed_text, text lost",
"C11-5":"handler-error bail-out inside end() (token that only exists at EOF) with a bail-out handler that appends: raw remainder written before the bail-out handlers' output",
"C12-3":"UTF-8 document, end handler calling end.append(\"\", Html): zero-length chunk mid-stream",
"C12-4":"handler error (ContentHandlerError) followed by another write()/end(): rewriter not poisoned",
"C12-5":"default settings (no graceful flags), input ending inside a buffered construct, handler failing on the token produced at EOF: end() dumps the buffered bytes raw",
"C13-3":"adjust_charset_on_meta_tag, content after the meta tag passed through raw, write boundary between the first raw byte after the meta tag and the next captured tag (or no later token): sink notified late/never, end.append in the old encoding",
"C13-4":"same change family as C01-3/C02-3 (fast path resumed while the decoder holds a lead byte)",
"C13-5":"<meta http-equiv=Content-Type content='text/html; charset=utf-16'> (from_mimetype no longer checks ASCII compatibility)",
"C14-3":"text node ending in a truncated multi-byte sequence that reaches the decoder in a feed of its own (flush positioned at pending start): last chunk reported as an empty range",
"C14-4":"legacy encoding with a non-ASCII character in an attribute value (or malformed byte in UTF-8): value_source_location length taken from the decoded string",
"C14-5":"set_attribute on an existing attribute, then value_source_location() read by the same or a later handler: stale start with the new length instead of None",
"C15-3":"text handler and one text lexeme with a valid prefix of >=1024 bytes followed by a split character / invalid byte / non-ASCII legacy byte: decode loop never exits (hang)",
"C15-4":">=65 element content handlers with distinct selectors: DenseHashSet::insert grows too little, debug assertion in HtmlRewriter::new",
"C15-5":"selector string with a quoted value containing an escaped quote followed by nesting deeper than 64: depth guard defeated, stack exhaustion",
"C16-3":"two chunks, boundary inside a start tag after an attribute with a value, tag not at chunk offset 0: attribute value range not re-aligned",
"C16-4":"same change as C07-5 (remove_attribute removes only the first duplicate), read back through has/get_attribute",
"C16-5":"<svg> nested in SVG content (or <math> in MathML) closed explicitly, followed by more elements of the outer root: namespace stack not pushed for the nested root",
"C17-3":"C API accessor returning an existing-but-empty string: NULL data instead of an empty string",
"C17-4":"two failures on one thread without lol_html_take_last_error() in between: the first message is kept",
"C17-5":"unstable_lol_html_rewriter_build_with_esi_tags with strict=false: strict and enable_esi_tags swapped",
"C18-3":"thread-local spare parsing buffer reused without charging the limiter: a memory-limited rewriter behaves differently after a large-buffer rewriter on the same thread",
"C18-4":"thread-local recycled namespace stack: a rewriter whose document ended inside svg/math changes the namespaces seen by the next rewriter on that thread",
"C18-5":":nth-of-type selectors + sibling elements with >=2 distinct long names of equal length: per-type counter map compares unhashable names by length only (outcome depends on the random hasher seed)",
}
for sid,need in N.items():
    d=f"/verif/seeded/{sid}"
    mp=d+"/meta.json"
    if not os.path.exists(mp): continue
    m=json.load(open(mp))
    m["property"]=sid.split("-")[0]
    m["needs_to_manifest"]=need
    m["source"]="independent sub-agent (round 2) given only the property text and a scratch worktree (nothing from /verif)"
    if os.path.exists(d+"/patch.orig.diff"): m["note"]="patch rebased onto a later fix: commit touching the same file; the original is patch.orig.diff"
    json.dump(m,open(mp,"w"),indent=1)
print("ok")
