#!/usr/bin/env python3
"""Adds property / needs_to_manifest / source to the meta.json of the round-4 seeds (directed at source files no earlier seed had touched)."""
import json,os
N={
"C13-8":"non-UTF-8 document, attribute value / name / comment / doctype id whose legacy bytes happen to be well-formed UTF-8 (C3 A9): Bytes::as_string returns them as UTF-8 (base/bytes.rs)",
"C13-9":"with_adjust_charset_on_meta_tag(true) called BEFORE with_encoding(..): with_encoding resets the flag, the meta charset switch never happens (rewriter/settings.rs + rewrite_str)",
"C04-8":"two selectors at the same tree position, the first with a repeated simple selector (.a.a), the later one of the same length containing its members (.a.b): one-way predicate equality merges them (selectors_vm/ast.rs)",
"C04-9":"flag-less attribute selector with an operator on a legacy HTML attribute name (type, lang, rel ...) evaluated on an SVG/MathML element whose value differs only in case: case-insensitivity resolved at compile time (selectors_vm/compiler.rs)",
"C07-8":"element with an explicit end tag renamed to a name that differs only in letter case (clippath -> clipPath, set_tag_name(tag_name())): the end tag keeps its raw spelling (tokens/end_tag.rs)",
"C07-9":"start tag written with '/>' (void or self-closing foreign) + start_tag().after() + any edit that re-serialises the tag: the self-closing syntax is dropped (tokens/start_tag.rs)",
"C16-8":"tag name 'h' + a control byte 0x11..0x16 inside svg/math: hashes like h1..h6, leaves foreign content (html/local_name.rs)",
"C16-9":"MathML element read through namespace_uri_c_str() / lol_html_element_namespace_uri_get: SVG URI (html/namespace.rs)",
"C03-8":"text-mode element whose last attribute is 'name=' directly followed by '>' (re-creation of the defect fixed by 3516e5a) (syntax/tag/attributes.rs)",
"C03-9":"doctype with a double-quoted public identifier after an earlier single-quoted attribute value or doctype identifier: closing quote not reset (syntax/doctype.rs)",
"C02-8":"tag-scan mode, write boundary inside a keyword prefix that then fails to match (<!-|x>, <!D|OCx>, ]]|b), later an element handler in a chunk followed by another write: stale keyword-matching marker, bytes emitted twice (syntax_dsl/arm_pattern/ch_sequence.rs)",
"C02-9":"lexed RCDATA element, write boundary exactly between '<' and '/' of its end tag: '<' flushed as text (syntax/text/rcdata.rs)",
"C12-8":"a streaming content handler that returns Err with more content queued in the same slot (same or second handler), graceful bail-out off: the remaining chunks are still written (rewritable_units/mutations.rs)",
"C12-9":"document-end handler calling end.append(\"\", Html): ASCII fast path hands an empty chunk to the sink (rewritable_units/document_end.rs)",
"C17-8":"C streaming handler writing UTF-8 fragments where one ends mid-character and the next (possibly empty) fragment is valid on its own: the pending sequence is discarded (c-api/src/streaming.rs)",
"C17-9":"C API replace / set_inner_content with zero-length content: returns 0 and does nothing (c-api/src/lib.rs content_insertion_fn_body)",
"C15-9":"selector with an escaped quote OUTSIDE a string (a\\\") followed by >64 nested :not(: the nesting pre-scan honours escapes only inside strings (selectors_vm/parser.rs)",
"C15-10":"selector with '*|' or a bare '|' followed by something that is not a name ('*|1', '|#id'): debug assertion instead of Err(UnexpectedToken) (selectors_vm/error.rs)",
"C10-8":"finite limit M with a non-zero preallocation P: the stored limit is bumped by P, buffer + stack may hold M+P (rewriter/settings.rs with_memory_settings)",
"C10-9":"rewrite_str() with Settings carrying a finite limit: the caller's MemorySettings are replaced, the limit is gone (rewriter/mod.rs rewrite_str)",
"C05-8":"an element matched only by a text/comment-handler selector, then (before any other captured start tag) a void element matched by an element handler: can_have_content leaks from the previous match, the void element gets an end-tag handler (rewriter/handlers_dispatcher.rs)",
"C05-9":"a rewriter with both a document-level and a selector-scoped text/comment handler firing on one token: document handlers registered first run first (rewriter/rewrite_controller.rs)",
"C09-8":"tag-scan mode, write boundary inside a keyword match while no tag is open (<!-|-, <!DOCT|YPE, ]|]>), then data without '<': stale tag_start, later writes consume nothing (parser/tag_scanner/mod.rs)",
"C09-9":"tag-scan mode, RAWTEXT element containing a non-matching end tag directly followed by a solidus (</b/), then text: tag start not released (syntax/text/rawtext.rs)",
}
for sid,need in N.items():
    d=f"/verif/seeded/{sid}"
    mp=d+"/meta.json"
    if not os.path.exists(mp): print("missing",sid); continue
    m=json.load(open(mp))
    m["property"]=sid.split("-")[0]
    m["needs_to_manifest"]=need
    m["source"]="independent sub-agent (round 4: directed at source files no earlier seeded change had touched) given only the property record and a scratch worktree (nothing from /verif)"
    json.dump(m,open(mp,"w"),indent=1)
print("ok")
