#!/usr/bin/env python3
"""Adds property / needs_to_manifest / source to the meta.json of the round-8 seeds (settings, strict mode, charset declarations, Send / per-thread state)."""
import json,os
N={
"C01-10":"initial UTF-8 + adjust_charset_on_meta_tag + a read-only text handler + a meta switch to a legacy encoding + a later text lexeme that is wholly well-formed UTF-8 with a non-ASCII character: the decoder's 'is UTF-8' test is cached at construction (same family as C13-10) (rewritable_units/text_decoder.rs)",
"C01-11":"adjust_charset_on_meta_tag, an earlier <meta charset> with a recognised label the rewriter cannot use (utf-16, iso-2022-jp), then a usable declaration: the 'found' flag is raised too early, the later declaration is ignored (rewriter/mod.rs)",
"C02-12":"same family as C01-9 / C13-12 (fast path while the decoder holds a lead byte: write boundary right after the lead byte of a character whose trail byte looks like ASCII) (rewritable_units/text_decoder.rs)",
"C02-13":"rewrite_str() with a RewriteStrSettings in which exactly one of with_strict(false) / with_enable_esi_tags(false) is set: the two flags are copied cross-wise in From<RewriteStrSettings> for Settings (rewriter/settings.rs)",
"C03-12":"strict mode, an earlier <template>...<select>...</template> (select closed by the template's end tag), later a <select> containing a stray </template>, then a text-mode element: the open-template counter is not decremented, the guard leaves 'in select' (parser/tree_builder_simulator/ambiguity_guard.rs)",
"C03-13":"strict mode, <template><select>...</template> inside an integration point of an svg / math island, later a text-mode element: the template is not counted (HTML namespace tested by stack depth), the guard stays 'in select' and refuses a document it should accept (parser/tree_builder_simulator/mod.rs)",
"C13-14":"adjust_charset_on_meta_tag + a user element handler on the declaring meta element that removes or overwrites its charset attribute: the built-in charset handler is chained after the user's handlers and reads the edited attribute (rewriter/rewrite_controller.rs)",
"C13-15":"adjust_charset_on_meta_tag + the declaring meta element inside an element being removed: OutputSink::set_encoding is skipped while emission is disabled, bytes of the new encoding arrive unannounced (transform_stream/dispatcher.rs)",
"C18-10":"same family as C18-8 / C10-1 (parsing buffer parked in a thread-local on drop and reused without being charged to the next rewriter's limit) (memory/arena.rs)",
"C18-11":"same family as C18-7 (per-thread selector parse cache keyed by the lower-cased selector text: .Note and .note share an entry) (selectors_vm/parser.rs)",
"C14-12":"same family as C14-6 (a text node whose final decoder feed produces no output: the finalising chunk is positioned at the pending start, an empty range) (rewritable_units/text_decoder.rs)",
"C14-13":"same family as C14-9 (set_attribute on an existing attribute, then value_source_location(): still Some) (rewritable_units/tokens/attributes.rs)",
}
for sid,need in N.items():
    mp=f"/verif/seeded/{sid}/meta.json"
    if not os.path.exists(mp):
        print("missing",sid); continue
    m=json.load(open(mp))
    m["property"]=sid.split("-")[0]
    m["needs_to_manifest"]=need
    m["source"]="independent sub-agent, round 8 (given only the property text and a scratch worktree; asked for changes around settings, strict mode, charset declarations and per-thread state)"
    json.dump(m,open(mp,"w"),indent=1)
print("ok")
