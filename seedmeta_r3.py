#!/usr/bin/env python3
"""Adds property / needs_to_manifest / source to the meta.json of the round-3 seeds."""
import json,os
N={
"C01-6":"tag-scan mode at end of document (no handler capturing at that point), document ending in '<', '</', '<name' or '</name': end() flushes only what the parser reports as consumed (two cooperating edits in dispatcher.rs and transform_stream/mod.rs)",
"C01-7":"UTF-8, read-only text handler, U+FEFF as the first thing fed to the lazily created per-node decoder (earlier write ended inside the same text node, or the node starts with U+FEFF and the first write ends inside a character): decoder created with BOM removal",
"C02-6":"same family as C02-3/C13-4: fast path resumed while the decoder holds a lead byte (write boundary between lead and ASCII-range trail byte, text before it in the same lexeme)",
"C02-7":"same family as C02-4: token_part_start not re-based at a chunk boundary right after '<!' / inside a partial --, DOCTYPE, [CDATA[ prefix that turns into a bogus comment, with an earlier lexeme in the same write",
"C03-6":"same family as C03-4: is_in_end_tag survives an unhashable end tag handed to the lexer inside a MathML integration point; the next start tag gets end-tag feedback (text-mode elements do not switch)",
"C03-7":"<svg> child of a MathML annotation-xml (non-HTML encoding): no SVG island is entered, so foreignObject/desc/title inside are no integration points ('spec-citing' guard on the namespace entered by <svg>/<math>)",
"C04-6":"same family as C04-4: per-type counter list unwound one level per end tag (same-typed elements open on >=2 levels closed together, later element at the stale depth)",
"C04-7":">=65 selectors on one rewriter and an element whose FIRST matching instruction has id >=64 while its match set is still one word: DenseHashSet::union grows by doubling the shorter set and truncates",
"C05-6":"an element handler removes/replaces content, an element nested inside that subtree matches another selector with an element handler, then any later start tag: handlers skipped inside removed content stay armed (early return before the disarm)",
"C05-7":"same family as C05-3: DenseHashSet::iter word index counted from the first non-empty word (>32 selectors, element matched only by ids >=32)",
"C06-6":"same family as C03-4/C06-3 (is_in_end_tag after a lexer hand-over inside a MathML integration point)",
"C06-7":"tag-scan mode, an end tag the dispatcher sends to the lexer (on_end_tag / after / remove on that element) whose element is a foreign root nested directly in a root of the same kind (<svg><svg></svg>): the end tag is reported to the tree builder simulator twice, the namespace stack is popped twice",
"C07-6":"same family as C07-1: element-level end-side edits installed after the user's on_end_tag handlers overwrite what those did",
"C07-7":"an element handler that drops content (set_inner_content, remove/replace + after/append) together with any other handler that keeps a capture flag raised at that end tag (no-op doc comments/text/doctype handler): in lexer mode output is re-enabled too late (two adjacent blocks of handle_tag reordered)",
"C08-6":"start tag that already carries the attribute name twice + set_attribute: the LAST duplicate is overwritten (rfind), the effective first one keeps the old value",
"C08-7":"text handler on a chunk inside style / script / xmp / CDATA calling before/after/replace with ContentType::Text: written verbatim where entities are not decoded, so '</style><img ...>' opens live markup",
"C09-6":"same family as C09-5: every unhashable start-tag name inside SVG goes through the lexer and is held back whole (MathML test moved into the lexeme callback)",
"C09-7":"handlers keeping the lexer active, a write ending right after '<' or '</' (or inside escaped script text), following writes without '>': the buffered branch of write() returns early 'until a > arrives' (two cooperating edits: Parser::is_lexing + early return)",
"C10-6":"same family as C10-3: Arena::append reserves only the overflow ('additional') relative to len, extend_from_slice doubles the Vec unaccounted",
"C10-7":"same family as C10-4: LimitedVec::push charges the minimum step while the vector doubles (>16 open elements)",
"C11-6":"graceful bail-out + bail-out handler appending ContentType::Html in a non-UTF-8 document (non-ASCII content) or an empty string: written raw, bypassing the output encoding and the empty-chunk guard",
"C11-7":"memory-limit bail-out, input buffered from a previous write, SPARE capacity in the parsing buffer (preallocation or an earlier grow+shift), next chunk overflowing the limit: Arena::append copies the head before it fails, the failure site flushes buffer then data, head bytes twice",
"C12-6":"handler-error bail-out, text handler failing on the last_in_text_node chunk of a text node still open at end of input: flush_for_bail_out hands an empty remainder to the sink (zero-length chunk although end() failed)",
"C12-7":"memory limit with graceful_bail_out_on_memory_limit_exceeded OFF, a registered bail-out handler that appends (only the handler-error flag is on), buffered unfinished tag + a second write that no longer fits: bail-out handlers run at the append failure site regardless of the flag",
"C13-6":"same family as C13-4 (fast path while the decoder holds a lead byte)",
"C13-7":"same family as C13-3 (flush_encoding_change hoisted to the top of try_produce_token_from_lexeme: no lexeme after the meta tag in tag-scan mode, sink notified late or never)",
"C14-6":"same family as C14-3: final chunk positioned at the pending start (text node ending in a truncated multi-byte sequence alone in its last decoder feed)",
"C14-7":"a start tag / end tag / comment modified at least TWICE (two set_attribute, set_tag_name + end.set_name, two set_text) and its source_location() read afterwards: remembered original length overwritten with 0",
"C15-6":"same family as C15-5 (escaped quote inside a string defeats the selector nesting guard)",
"C15-7":"non-UTF-8 document + one inserted content piece with >=1 MiB of non-ASCII tail: encoder scratch buffer created with_capacity (empty slice) at both allocation sites, encode loop spins forever (two cooperating edits)",
"C15-8":"same family as C15-4 (DenseHashSet::insert growth, >=65 distinct selectors: out-of-bounds word index, panic in HtmlRewriter::new)",
"C16-6":"one start tag: remove every attribute, then one more mutating call (set_attribute, or remove_attribute of an absent name), then read: an empty materialized attribute list is treated as not materialized, removed attributes come back",
"C16-7":"<font color|face|size> in svg/math matched by an element handler: the start tag's namespace stamped before the deferred tree-builder feedback (reports SVG/MathML instead of XHTML); rebased onto fix a5a95ce",
"C17-6":"C API: element user data set non-NULL by one handler and reset to NULL by a later handler of the same element: the NULL store is skipped, the stale pointer stays",
"C17-7":"same family as C17-4 (last-error slot first-error-wins)",
"C18-6":"same family as C18-3/C10-1 (thread-local spare parsing buffer not charged to the next rewriter's limiter)",
"C18-7":"same family as C18-2: per-thread cache of parsed selectors keyed by the lower-cased selector text (.Note vs .note)",
}
for sid,need in N.items():
    d=f"/verif/seeded/{sid}"
    mp=d+"/meta.json"
    if not os.path.exists(mp): print("missing",sid); continue
    m=json.load(open(mp))
    m["property"]=sid.split("-")[0]
    m["needs_to_manifest"]=need
    m["source"]="independent sub-agent (round 3: asked for multi-step histories, cooperating edits, rarely used paths) given only the property record and a scratch worktree (nothing from /verif)"
    if os.path.exists(d+"/patch.orig.diff"): m["note"]="patch rebased onto a later fix: commit touching the same lines; the original is patch.orig.diff"
    json.dump(m,open(mp,"w"),indent=1)
print("ok")
